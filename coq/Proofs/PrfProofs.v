(* Proofs about Model/Prf.v (C15). *)
From Coq Require Import Permutation.
From CC Require Import Base.Prelude Base.Scalar Base.Ty Model.Bytes Proofs.BytesProofs Model.Prf.

(* ================================================================== A. relating two byte sources *)
Section Rel.
  Context {S1 S2 : Type} (R : S1 -> S2 -> Prop).
  (* same outcome, equal outputs, related states *)
  Definition rrel {A} (r1 : result (A * S1)) (r2 : result (A * S2)) : Prop :=
    match r1, r2 with
    | Ok (a, s1), Ok (b, s2) => a = b /\ R s1 s2
    | Err, Err | Panic, Panic | OutOfFuel, OutOfFuel => True
    | _, _ => False
    end.

  Lemma rrel_bind {A B} (r1 : result (A * S1)) (r2 : result (A * S2))
        (k1 : A * S1 -> result (B * S1)) (k2 : A * S2 -> result (B * S2)) :
    rrel r1 r2 ->
    (forall a s1 s2, R s1 s2 -> rrel (k1 (a, s1)) (k2 (a, s2))) ->
    rrel (bind r1 k1) (bind r2 k2).
  Proof.
    intros H K. destruct r1 as [[a s1]| | |], r2 as [[b s2]| | |]; cbn in *; try contradiction; auto.
    destruct H as [-> H]. apply K, H.
  Qed.

  (* a plain (state-free) intermediate result in front of both continuations *)
  Lemma rrel_bind_pure {A B} (r : result A) (k1 : A -> result (B * S1)) (k2 : A -> result (B * S2)) :
    (forall a, rrel (k1 a) (k2 a)) -> rrel (bind r k1) (bind r k2).
  Proof. intros K. destruct r; cbn; auto. Qed.

  Lemma rrel_ok {A} (a : A) s1 s2 : R s1 s2 -> rrel (Ok (a, s1)) (Ok (a, s2)).
  Proof. cbn. auto. Qed.

  Section Lists.
    Context {A B : Type} (f1 : A -> S1 -> result (B * S1)) (f2 : A -> S2 -> result (B * S2)).
    Lemma mapS_rel l :
      Forall (fun x => forall s1 s2, R s1 s2 -> rrel (f1 x s1) (f2 x s2)) l ->
      forall s1 s2, R s1 s2 -> rrel (mapS f1 l s1) (mapS f2 l s2).
    Proof.
      induction 1 as [|x l Hx Hl IH]; intros s1 s2 Hs; cbn [mapS].
      - apply rrel_ok, Hs.
      - apply rrel_bind; [apply Hx, Hs|]. intros y t1 t2 Ht.
        apply rrel_bind; [apply IH, Ht|]. intros ys u1 u2 Hu. apply rrel_ok, Hu.
    Qed.
  End Lists.
  Lemma repS_rel {B} (g1 : S1 -> result (B * S1)) (g2 : S2 -> result (B * S2)) k :
    (forall s1 s2, R s1 s2 -> rrel (g1 s1) (g2 s2)) ->
    forall s1 s2, R s1 s2 -> rrel (repS g1 k s1) (repS g2 k s2).
  Proof.
    intros Hg. induction k as [|k IH]; intros s1 s2 Hs; cbn [repS].
    - apply rrel_ok, Hs.
    - apply rrel_bind; [apply Hg, Hs|]. intros y t1 t2 Ht.
      apply rrel_bind; [apply IH, Ht|]. intros ys u1 u2 Hu. apply rrel_ok, Hu.
  Qed.

  Context (bytes1 : S1 -> nat -> result (list Z * S1)) (bytes2 : S2 -> nat -> result (list Z * S2)).
  Context (number1 : S1 -> nat -> result (Z * S1)) (number2 : S2 -> nat -> result (Z * S2)).
  Hypothesis Hbytes : forall s1 s2 n, R s1 s2 -> rrel (bytes1 s1 n) (bytes2 s2 n).
  Hypothesis Hnumber : forall s1 s2 n, R s1 s2 -> rrel (number1 s1 n) (number2 s2 n).

  Lemma gen_leaf_rel t s1 s2 : R s1 s2 -> rrel (gen_leaf bytes1 t s1) (gen_leaf bytes2 t s2).
  Proof.
    intros Hs. unfold gen_leaf. apply rrel_bind_pure. intros bits.
    apply rrel_bind; [apply Hbytes, Hs|]. intros bs t1 t2 Ht. apply rrel_ok, Ht.
  Qed.

  Lemma gen_value_rel t : forall s1 s2, R s1 s2 -> rrel (gen_value bytes1 t s1) (gen_value bytes2 t s2).
  Proof.
    induction t as [s|sh s|n t IH|ts IH|fs IH] using ty_ind'; intros s1 s2 Hs; cbn [gen_value].
    - apply gen_leaf_rel, Hs.
    - apply gen_leaf_rel, Hs.
    - apply rrel_bind; [apply repS_rel; auto|]. intros vs t1 t2 Ht. apply rrel_ok, Ht.
    - apply rrel_bind; [apply mapS_rel; auto|]. intros vs t1 t2 Ht. apply rrel_ok, Ht.
    - apply rrel_bind; [apply mapS_rel; auto|]. intros vs t1 t2 Ht. apply rrel_ok, Ht.
  Qed.

  Lemma u32_loop_rel fuel need bound m : forall s1 s2, R s1 s2 ->
    rrel (u32_loop number1 fuel need bound m s1) (u32_loop number2 fuel need bound m s2).
  Proof.
    induction fuel as [|f IH]; intros s1 s2 Hs; cbn [u32_loop]; [exact I|].
    apply rrel_bind; [apply Hnumber, Hs|]. intros r t1 t2 Ht.
    destruct (r <=? bound); [apply rrel_ok, Ht | apply IH, Ht].
  Qed.
  Lemma u32_in_range_rel fuel m s1 s2 : R s1 s2 ->
    rrel (u32_in_range number1 fuel m s1) (u32_in_range number2 fuel m s2).
  Proof.
    intros Hs. unfold u32_in_range. destruct (m =? 0); [exact I|]. apply u32_loop_rel, Hs.
  Qed.
  Lemma fy_loop_rel fuel cnt : forall i a s1 s2, R s1 s2 ->
    rrel (fy_loop number1 fuel cnt i a s1) (fy_loop number2 fuel cnt i a s2).
  Proof.
    induction cnt as [|c IH]; intros i a s1 s2 Hs; cbn [fy_loop]; [apply rrel_ok, Hs|].
    apply rrel_bind; [apply u32_in_range_rel, Hs|]. intros j t1 t2 Ht.
    apply rrel_bind_pure. intros a1. apply IH, Ht.
  Qed.

  Lemma read_u64_rel s1 s2 : R s1 s2 -> rrel (read_u64 bytes1 s1) (read_u64 bytes2 s2).
  Proof.
    intros Hs. unfold read_u64. apply rrel_bind; [apply Hbytes, Hs|]. intros bs t1 t2 Ht.
    apply rrel_bind_pure. intros [|x v]; [exact I|]. apply rrel_ok, Ht.
  Qed.
  Lemma in_range_loop_rel fuel bound m : forall s1 s2, R s1 s2 ->
    rrel (in_range_loop bytes1 fuel bound m s1) (in_range_loop bytes2 fuel bound m s2).
  Proof.
    induction fuel as [|f IH]; intros s1 s2 Hs; cbn [in_range_loop]; [exact I|].
    apply rrel_bind; [apply read_u64_rel, Hs|]. intros r t1 t2 Ht.
    destruct (r <=? bound); [apply rrel_ok, Ht | apply IH, Ht].
  Qed.
  Lemma get_random_in_range_rel fuel m s1 s2 : R s1 s2 ->
    rrel (get_random_in_range bytes1 fuel m s1) (get_random_in_range bytes2 fuel m s2).
  Proof.
    intros Hs. destruct m as [m|]; cbn [get_random_in_range]; [|apply read_u64_rel, Hs].
    destruct (m =? 0); [exact I|]. apply in_range_loop_rel, Hs.
  Qed.
  Lemma shuffle_loop_rel fuel i : forall a s1 s2, R s1 s2 ->
    rrel (shuffle_loop bytes1 fuel i a s1) (shuffle_loop bytes2 fuel i a s2).
  Proof.
    induction i as [|i IH]; intros a s1 s2 Hs; cbn [shuffle_loop]; [apply rrel_ok, Hs|].
    apply rrel_bind; [apply get_random_in_range_rel, Hs|]. intros j t1 t2 Ht.
    apply rrel_bind_pure. intros a1. apply IH, Ht.
  Qed.

  Lemma prng_step_rel fuel op s1 s2 : R s1 s2 ->
    rrel (prng_step bytes1 fuel op s1) (prng_step bytes2 fuel op s2).
  Proof.
    intros Hs. destruct op as [n|t|m|n]; cbn [prng_step].
    - apply rrel_bind; [apply Hbytes, Hs|]. intros b t1 t2 Ht. apply rrel_ok, Ht.
    - apply rrel_bind; [apply gen_value_rel, Hs|]. intros b t1 t2 Ht. apply rrel_ok, Ht.
    - apply rrel_bind; [apply get_random_in_range_rel, Hs|]. intros b t1 t2 Ht. apply rrel_ok, Ht.
    - apply rrel_bind; [apply shuffle_loop_rel, Hs|]. intros b t1 t2 Ht.
      apply rrel_bind_pure. intros bb. apply rrel_ok, Ht.
  Qed.
  Lemma prng_run_rel fuel ops : forall s1 s2, R s1 s2 ->
    prng_run bytes1 fuel ops s1 = prng_run bytes2 fuel ops s2.
  Proof.
    induction ops as [|op r IH]; intros s1 s2 Hs; cbn [prng_run]; [reflexivity|].
    pose proof (prng_step_rel fuel op s1 s2 Hs) as H.
    destruct (prng_step bytes1 fuel op s1) as [[o t1]| | |], (prng_step bytes2 fuel op s2) as [[o' t2]| | |];
      cbn in H; try contradiction; try reflexivity.
    destruct H as [-> Ht]. f_equal. apply IH, Ht.
  Qed.
End Rel.

(* ================================================================== B. list and byte facts *)
Lemma skipn_add {A} a b (l : list A) : skipn (a + b) l = skipn b (skipn a l).
Proof.
  revert l; induction a as [|a IH]; intros l; cbn [Nat.add skipn]; [reflexivity|].
  destruct l; [now rewrite skipn_nil|]. apply IH.
Qed.

Lemma seg_length f p n : length (seg f p n) = n.
Proof. unfold seg. now rewrite map_length, seq_length. Qed.
Lemma seg_app f p n m : seg f p (n + m) = seg f p n ++ seg f (p + n) m.
Proof. unfold seg. now rewrite seq_app, map_app. Qed.
Lemma firstn_seg f p n m : (n <= m)%nat -> firstn n (seg f p m) = seg f p n.
Proof.
  intros H. replace m with (n + (m - n))%nat by lia. rewrite seg_app.
  apply firstn_app_exact, seg_length.
Qed.
Lemma skipn_seg f p n m : (n <= m)%nat -> skipn n (seg f p m) = seg f (p + n) (m - n).
Proof.
  intros H. replace m with (n + (m - n))%nat at 1 by lia. rewrite seg_app.
  apply skipn_app_exact, seg_length.
Qed.
Lemma seg_0 f p : seg f p 0 = [].
Proof. reflexivity. Qed.
Lemma seg_Forall (P : Z -> Prop) f p n : (forall i, P (f i)) -> Forall P (seg f p n).
Proof. intros H. unfold seg. apply Forall_forall. intros x Hx. apply in_map_iff in Hx as (i & <- & _). apply H. Qed.

Lemma seq_offset a s n : seq (a + s) n = map (fun r => (a + r)%nat) (seq s n).
Proof.
  revert s; induction n as [|n IH]; intros s; cbn [seq map]; [reflexivity|].
  f_equal. replace (S (a + s)) with (a + S s)%nat by lia. apply IH.
Qed.
Lemma map_nth_seq {A} (l : list A) d : map (fun i => nth i l d) (seq 0 (length l)) = l.
Proof.
  induction l as [|x l IH]; cbn [length seq map]; [reflexivity|].
  f_equal. rewrite <- seq_shift, map_map. exact IH.
Qed.

Lemma from_le_bytes_app_zeros l k : from_le_bytes (l ++ repeat 0 k) = from_le_bytes l.
Proof.
  induction l as [|b l IH]; cbn [app from_le_bytes].
  - induction k as [|k IHk]; cbn [repeat from_le_bytes]; lia.
  - rewrite IH. reflexivity.
Qed.
Lemma from_le_bytes_bound l : Forall byte l -> 0 <= from_le_bytes l < 256 ^ Z.of_nat (length l).
Proof.
  induction 1 as [|b l Hb Hl IH]; cbn [from_le_bytes length].
  - cbn. lia.
  - rewrite Nat2Z.inj_succ, Z.pow_succ_r by lia. unfold byte in Hb. lia.
Qed.
Lemma land_mask_small x n : 0 <= n -> 0 <= x < 2 ^ n -> Z.land x (2 ^ n - 1) = x.
Proof.
  intros Hn Hx. replace (2 ^ n - 1) with (Z.ones n) by (rewrite Z.ones_equiv; lia).
  rewrite Z.land_ones by lia. apply Z.mod_small, Hx.
Qed.
Lemma pow256 n : 256 ^ Z.of_nat n = 2 ^ (Z.of_nat n * 8).
Proof. rewrite Z.mul_comm, Z.pow_mul_r by lia. reflexivity. Qed.

(* the number a `need`-byte read returns, for bytes in range *)
Lemma number_value l need :
  Forall byte l -> length l = need -> (1 <= need <= 8)%nat ->
  Z.land (from_le_bytes (l ++ repeat 0 (8 - need)))
         (if (need =? 8)%nat then u64_max else 2 ^ (Z.of_nat need * 8) - 1) = from_le_bytes l.
Proof.
  intros Hl Hlen Hneed. rewrite from_le_bytes_app_zeros.
  pose proof (from_le_bytes_bound l Hl) as B. rewrite Hlen, pow256 in B.
  destruct (need =? 8)%nat eqn:E.
  - apply Nat.eqb_eq in E. subst need. rewrite E in B. change (Z.of_nat 8 * 8) with 64 in B.
    unfold u64_max. apply land_mask_small; lia.
  - apply land_mask_small; lia.
Qed.

(* ================================================================== C. the session reads the stream *)
Section Stream.
  Variable aes : list Z -> Z -> Z.
  Variable key : list Z.
  Variable iv : Z.
  Notation f := (stream_byte aes key iv).

  Lemma enc_block_length c : length (enc_block aes key c) = 16%nat.
  Proof. apply le_bytes_length. Qed.

  Lemma stream_byte_range i : byte (f i).
  Proof.
    unfold stream_byte. pose proof (le_bytes_range 16 (aes key (ctr iv (Z.of_nat (i / 16))))) as H.
    rewrite Forall_nth in H. apply H. unfold enc_block. rewrite le_bytes_length.
    apply Nat.mod_upper_bound. lia.
  Qed.

  Lemma ctr_add b j : (ctr iv b + j) mod 2 ^ 128 = ctr iv (b + j).
  Proof. unfold ctr. rewrite Zplus_mod_idemp_l. f_equal. lia. Qed.
  Lemma ctr_0 : (iv * 2 ^ 64) mod 2 ^ 128 = ctr iv 0.
  Proof. unfold ctr. f_equal. lia. Qed.

  (* one block of the stream *)
  Lemma block_seg c : seg f (16 * c) 16 = enc_block aes key (ctr iv (Z.of_nat c)).
  Proof.
    unfold seg. replace (16 * c)%nat with (16 * c + 0)%nat by lia. rewrite seq_offset, map_map.
    rewrite <- (map_nth_seq (enc_block aes key (ctr iv (Z.of_nat c))) 0).
    rewrite enc_block_length. apply map_ext_in. intros r Hr. apply in_seq in Hr.
    unfold stream_byte. replace ((16 * c + r) mod 16)%nat with r by lia.
    replace ((16 * c + r) / 16)%nat with c by lia. reflexivity.
  Qed.

  Lemma blocks_seg b m : forall j0,
    flat_map (fun j => enc_block aes key ((ctr iv (Z.of_nat b) + Z.of_nat j) mod 2 ^ 128)) (seq j0 m)
    = seg f (16 * (b + j0)) (16 * m).
  Proof.
    induction m as [|m IH]; intros j0; cbn [seq flat_map].
    - reflexivity.
    - rewrite IH. replace (16 * S m)%nat with (16 + 16 * m)%nat by lia. rewrite seg_app.
      f_equal.
      + rewrite block_seg, ctr_add. do 2 f_equal. lia.
      + f_equal. lia.
  Qed.

  (* the session has served the first p bytes of the stream *)
  Definition Inv (s : session) (p : nat) : Prop :=
    s_cur s = length (s_buf s) /\ (s_next s <= s_cur s)%nat /\
    (s_nsz s mod 16 = 0)%nat /\ (0 < s_nsz s)%nat /\
    exists b : nat, (p + (s_cur s - s_next s) = 16 * b)%nat /\
                    s_input s = ctr iv (Z.of_nat b) /\
                    skipn (s_next s) (s_buf s) = seg f p (s_cur s - s_next s).

  Lemma Inv_new initial : (0 < initial)%nat -> Inv (session_new iv initial) 0.
  Proof.
    intros Hi. unfold session_new, BLOCK_SIZE.
    set (sz := ((initial + 16 - 1) / 16 * 16)%nat).
    assert (Hsz : (0 < sz /\ sz mod 16 = 0)%nat) by (subst sz; split; [lia | apply Nat.mod_mul; lia]).
    unfold Inv; cbn [s_cur s_buf s_next s_nsz s_input]. rewrite repeat_length.
    repeat split; try lia. exists 0%nat. repeat split; [lia | apply ctr_0 |].
    rewrite Nat.sub_diag. rewrite skipn_all2 by (rewrite repeat_length; lia). reflexivity.
  Qed.

  (* generate_one_batch on a session whose counter is at block b *)
  Lemma batch_spec s b :
    (s_nsz s mod 16 = 0)%nat -> (0 < s_nsz s)%nat -> s_input s = ctr iv (Z.of_nat b) ->
    exists s', generate_one_batch aes key s = Ok s' /\
      s_buf s' = seg f (16 * b) (s_nsz s) /\ s_next s' = 0%nat /\ s_cur s' = s_nsz s /\
      s_input s' = ctr iv (Z.of_nat (b + s_nsz s / 16)) /\
      (s_nsz s' mod 16 = 0)%nat /\ (0 < s_nsz s')%nat.
  Proof.
    intros Hm Hp Hin. unfold generate_one_batch, BLOCK_SIZE, BUFFER_SIZE.
    replace (s_nsz s mod 16 =? 0)%nat with true by (symmetry; apply Nat.eqb_eq; exact Hm).
    cbn [negb]. eexists. split; [reflexivity|]. cbn [s_buf s_next s_cur s_input s_nsz].
    rewrite Hin. repeat split.
    - rewrite blocks_seg. f_equal; lia.
    - rewrite ctr_add. f_equal. lia.
    - destruct (s_nsz s <? 512)%nat eqn:E; [|exact Hm].
      apply Nat.ltb_lt in E. destruct (Nat.min_spec 512 (s_nsz s * 2)) as [[_ ->]|[_ ->]]; [reflexivity|].
      lia.
    - destruct (s_nsz s <? 512)%nat; lia.
  Qed.

  Lemma slice_ok {A} (l : list A) a b : (a <= b <= length l)%nat -> slice l a b = Ok (firstn (b - a) (skipn a l)).
  Proof.
    intros H. unfold slice.
    replace ((a <=? b)%nat && (b <=? length l)%nat) with true; [reflexivity|].
    symmetry. apply andb_true_iff. split; apply Nat.leb_le; lia.
  Qed.

  Lemma Inv_advance s p n :
    Inv s p -> (n <= s_cur s - s_next s)%nat -> Inv (set_next s (s_next s + n)) (p + n).
  Proof.
    intros (Hc & Hn & Hm & Hp & b & Hb & Hin & Hsk) Hle. unfold Inv, set_next.
    cbn [s_cur s_buf s_next s_nsz s_input]. repeat split; try lia; auto.
    exists b. repeat split; [lia | exact Hin |].
    rewrite skipn_add, Hsk, skipn_seg by lia. f_equal. lia.
  Qed.

  (* fill_random_bytes: need more bytes of the stream, whatever is buffered *)
  Lemma fill_spec fuel : forall s need acc p,
    Inv s p ->
    (need + 2 <= fuel \/ (0 < s_cur s - s_next s /\ need + 1 <= fuel))%nat ->
    exists s', fill aes key fuel s need acc = Ok (acc ++ seg f p need, s') /\ Inv s' (p + need).
  Proof.
    induction fuel as [|fuel IH]; intros s need acc p HI Hfuel; [lia|].
    cbn [fill]. destruct (need =? 0)%nat eqn:E0.
    { apply Nat.eqb_eq in E0. subst need. exists s. rewrite seg_0, app_nil_r, Nat.add_0_r. auto. }
    apply Nat.eqb_neq in E0.
    pose proof HI as (Hc & Hn & Hm & Hp & b & Hb & Hin & Hsk).
    rewrite slice_ok by lia. cbn [bind].
    assert (Hready : firstn (s_cur s - s_next s) (skipn (s_next s) (s_buf s)) = seg f p (s_cur s - s_next s)).
    { rewrite firstn_all2; [exact Hsk | rewrite skipn_length; lia]. }
    rewrite Hready, seg_length.
    destruct (need <=? s_cur s - s_next s)%nat eqn:E.
    - apply Nat.leb_le in E. eexists. split; [|apply Inv_advance; eauto].
      rewrite firstn_seg by lia. reflexivity.
    - apply Nat.leb_gt in E.
      destruct (batch_spec (set_next s 0) b) as (s1 & Hs1 & Hbuf & Hnx & Hcu & Hinp & Hm1 & Hp1); auto.
      rewrite Hs1. cbn [bind]. cbn [set_next s_nsz] in *.
      destruct (IH s1 (need - (s_cur s - s_next s))%nat (acc ++ seg f p (s_cur s - s_next s))
                   (p + (s_cur s - s_next s))%nat) as (s' & Hf & HI').
      + unfold Inv. rewrite Hbuf, Hnx, Hcu, seg_length. repeat split; try lia; auto.
        exists (b + s_nsz s / 16)%nat. repeat split; [lia | exact Hinp |].
        rewrite Nat.sub_0_r. cbn [skipn]. f_equal. lia.
      + right. rewrite Hnx, Hcu. lia.
      + exists s'. split.
        * rewrite Hf, <- app_assoc, <- seg_app.
          assert (Hn' : (s_cur s - s_next s + (need - (s_cur s - s_next s)) = need)%nat) by lia.
          rewrite Hn'. reflexivity.
        * replace (p + need)%nat with (p + (s_cur s - s_next s) + (need - (s_cur s - s_next s)))%nat by lia.
          exact HI'.
  Qed.

  Definition SI (s : session) (p : nat) : Prop := Inv s p.

  Theorem sess_bytes_stream s p n :
    Inv s p -> exists s', sess_bytes aes key s n = Ok (seg f p n, s') /\ Inv s' (p + n).
  Proof.
    intros HI. destruct (fill_spec (n + 2) s n [] p HI) as (s' & H & HI'); [lia|].
    exists s'. split; [exact H | exact HI'].
  Qed.

  Lemma sess_bytes_rel s p n : Inv s p -> rrel Inv (sess_bytes aes key s n) (pure_bytes f p n).
  Proof.
    intros HI. destruct (sess_bytes_stream s p n HI) as (s' & -> & HI'). cbn. auto.
  Qed.

  Lemma sess_number_rel s p need : Inv s p -> rrel Inv (sess_number aes key s need) (pure_number f p need).
  Proof.
    intros HI. unfold sess_number, pure_number.
    destruct ((1 <=? need)%nat && (need <=? 8)%nat) eqn:En; [|exact I].
    apply andb_true_iff in En as [En1 En2]. apply Nat.leb_le in En1, En2.
    pose proof HI as (Hc & Hn & Hm & Hp & b & Hb & Hin & Hsk).
    unfold sess_number_const.
    replace (s_cur s <? s_next s)%nat with false by (symmetry; apply Nat.ltb_ge; lia).
    set (av := (s_cur s - s_next s)%nat) in *.
    rewrite slice_ok by lia. cbn [bind].
    replace (s_next s + Nat.min av need - s_next s)%nat with (Nat.min av need) by lia.
    assert (Hp1 : firstn (Nat.min av need) (skipn (s_next s) (s_buf s)) = seg f p (Nat.min av need)).
    { rewrite Hsk. apply firstn_seg. lia. }
    rewrite Hp1.
    destruct (Nat.min av need =? need)%nat eqn:E.
    - apply Nat.eqb_eq in E. rewrite E. cbn. split.
      + apply number_value; [apply seg_Forall, stream_byte_range | apply seg_length | lia].
      + apply Inv_advance; [exact HI | fold av; lia].
    - apply Nat.eqb_neq in E. assert (Hav : (av < need)%nat) by lia.
      replace (Nat.min av need) with av by lia.
      destruct (batch_spec s b) as (s1 & Hs1 & Hbuf & Hnx & Hcu & Hinp & Hm1 & Hp1'); auto.
      rewrite Hs1. cbn [bind].
      assert (H16 : (16 <= s_nsz s)%nat) by lia.
      rewrite slice_ok by (rewrite Hbuf, seg_length; lia). cbn [bind skipn].
      rewrite Nat.sub_0_r, Hbuf, firstn_seg by lia.
      replace (16 * b)%nat with (p + av)%nat by lia.
      cbn. split.
      + rewrite app_assoc, <- seg_app. replace (av + (need - av))%nat with need by lia.
        apply number_value; [apply seg_Forall, stream_byte_range | apply seg_length | lia].
      + unfold Inv, set_next. cbn [s_cur s_buf s_next s_nsz s_input].
        rewrite Hbuf, Hcu, seg_length. repeat split; try lia; auto.
        exists (b + s_nsz s / 16)%nat. repeat split; [lia | exact Hinp |].
        rewrite skipn_seg by lia. f_equal. lia.
  Qed.
End Stream.

(* ================================================================== D. consequences *)
Lemma bind_ok_inv {A B} (r : result A) (k : A -> result B) y :
  bind r k = Ok y -> exists a, r = Ok a /\ k a = Ok y.
Proof. destruct r; cbn; intros H; try discriminate. eauto. Qed.

(* ---------------------------------------------------------------- D1. bytes_schedule_indep *)
Section Serve.
  Variable aes : list Z -> Z -> Z.
  (* a sequence of generate_random_bytes requests on one session *)
  Fixpoint serve (key : list Z) (s : session) (reqs : list nat) : result (list (list Z)) :=
    match reqs with
    | [] => Ok []
    | n :: r => let* (b, s') := sess_bytes aes key s n in
                let* bs := serve key s' r in Ok (b :: bs)
    end.
  (* the same requests cut out of a stream, one after the other *)
  Fixpoint serve_spec (f : nat -> Z) (p : nat) (reqs : list nat) : list (list Z) :=
    match reqs with
    | [] => []
    | n :: r => seg f p n :: serve_spec f (p + n) r
    end.

  Lemma serve_stream key iv reqs : forall s p,
    Inv aes key iv s p -> serve key s reqs = Ok (serve_spec (stream_byte aes key iv) p reqs).
  Proof.
    induction reqs as [|n r IH]; intros s p HI; cbn [serve serve_spec]; [reflexivity|].
    destruct (sess_bytes_stream aes key iv s p n HI) as (s' & -> & HI'). cbn [bind].
    rewrite (IH s' _ HI'). reflexivity.
  Qed.

  Theorem bytes_schedule_indep key iv initial reqs :
    (0 < initial)%nat ->
    serve key (session_new iv initial) reqs = Ok (serve_spec (stream_byte aes key iv) 0 reqs).
  Proof. intros H. apply serve_stream, Inv_new, H. Qed.

  Lemma serve_spec_concat f reqs : forall p,
    concat (serve_spec f p reqs) = seg f p (fold_right Nat.add 0%nat reqs).
  Proof.
    induction reqs as [|n r IH]; intros p; cbn [serve_spec concat fold_right]; [reflexivity|].
    rewrite IH, seg_app. reflexivity.
  Qed.
End Serve.

(* ---------------------------------------------------------------- D2. model = buffer-free spec *)
Section Pure.
  Variable aes : list Z -> Z -> Z.

  Lemma prf_value_spec key iv t : prf_output_value aes (mkPrf key) iv t = spec_value aes key iv t.
  Proof.
    unfold prf_output_value, spec_value. cbn [prf_key].
    assert (H0 : (0 < INITIAL_BUFFER_SIZE)%nat) by (unfold INITIAL_BUFFER_SIZE; lia).
    pose proof (gen_value_rel (Inv aes key iv) (sess_bytes aes key) (pure_bytes (stream_byte aes key iv))
                  (sess_bytes_rel aes key iv) t _ _ (Inv_new aes key iv _ H0)) as H.
    destruct (gen_value (sess_bytes aes key) t _) as [[v s]| | |],
             (gen_value (pure_bytes _) t _) as [[v' p]| | |]; cbn in H; try contradiction; try reflexivity.
    destruct H as [-> _]. reflexivity.
  Qed.

  Lemma prf_perm_spec fuel key iv n :
    prf_output_permutation aes fuel (mkPrf key) iv n = spec_permutation aes fuel key iv n.
  Proof.
    unfold prf_output_permutation, spec_permutation. cbn [prf_key].
    destruct (2 ^ 30 <? n); [reflexivity|].
    destruct (Z.to_nat n) as [|k] eqn:En; [reflexivity|].
    assert (H0 : (0 < Nat.min BUFFER_SIZE (S k))%nat) by (unfold BUFFER_SIZE; lia).
    pose proof (fy_loop_rel (Inv aes key iv) (sess_number aes key) (pure_number (stream_byte aes key iv))
                  (sess_number_rel aes key iv) fuel (S k - 1) 1 (iota (S k)) _ _
                  (Inv_new aes key iv _ H0)) as H.
    destruct (fy_loop (sess_number aes key) _ _ _ _ _) as [[a s]| | |],
             (fy_loop (pure_number _) _ _ _ _ _) as [[a' p]| | |]; cbn in H; try contradiction; try reflexivity.
    destruct H as [-> _]. reflexivity.
  Qed.

  (* every cached Prf object was built from the first 16 bytes of its map key *)
  Definition cache_ok (ev : evaluator) : Prop :=
    Forall (fun kp => (SEED_SIZE <= length (fst kp))%nat /\ prf_key (snd kp) = firstn SEED_SIZE (fst kp)) ev.
  Definition insts_ok (m : instances) : Prop := Forall (fun ie => cache_ok (snd ie)) m.

  Lemma cache_find_ok ev k p : cache_ok ev -> cache_find k ev = Some p ->
    (SEED_SIZE <= length k)%nat /\ prf_key p = firstn SEED_SIZE k.
  Proof.
    induction 1 as [|[k' p'] ev [H1 H2] Hev IH]; cbn [cache_find]; [discriminate|].
    destruct (list_eqb Z.eqb k k') eqn:E.
    - apply list_eqb_eq in E; [|intros x y Hxy; apply Z.eqb_eq, Hxy]. subst k'.
      intros [= <-]. cbn [fst snd] in *. auto.
    - exact IH.
  Qed.
  Lemma inst_find_ok i m : insts_ok m -> cache_ok (inst_find i m).
  Proof.
    induction 1 as [|[i' e] m He Hm IH]; cbn [inst_find]; [constructor|].
    destruct (i =? i')%nat; [exact He | exact IH].
  Qed.

  Lemma prf_run_spec fuel p c key :
    call_key c = BBytes key -> (SEED_SIZE <= length key)%nat -> prf_key p = firstn SEED_SIZE key ->
    prf_run aes fuel p c = spec_call aes fuel c.
  Proof.
    intros Hk Hl Hp. unfold spec_call. rewrite Hk.
    replace (length key <? SEED_SIZE)%nat with false by (symmetry; apply Nat.ltb_ge; exact Hl).
    destruct p as [k]. cbn [prf_key] in Hp. subst k.
    destruct c; cbn [prf_run]; [apply prf_value_spec | apply prf_perm_spec].
  Qed.

  Lemma eval_prf_node_spec fuel ev c : cache_ok ev ->
    fst (eval_prf_node aes fuel ev c) = spec_call aes fuel c /\
    cache_ok (snd (eval_prf_node aes fuel ev c)).
  Proof.
    intros Hev. unfold eval_prf_node.
    destruct (call_key c) as [key|vs] eqn:Hk; [|unfold spec_call; rewrite Hk; auto].
    destruct (cache_find key ev) as [p|] eqn:Hf.
    - destruct (cache_find_ok ev key p Hev Hf) as [Hl Hp]. cbn [fst snd]. split; [|exact Hev].
      apply prf_run_spec with key; auto.
    - destruct (length key <? SEED_SIZE)%nat eqn:El.
      + unfold spec_call. rewrite Hk, El. auto.
      + apply Nat.ltb_ge in El.
        rewrite (prf_run_spec fuel (prf_new (firstn SEED_SIZE key)) c key Hk El eq_refl).
        destruct (spec_call aes fuel c) eqn:Es; cbn [fst snd]; split; auto.
        constructor; [cbn [fst snd]; auto | exact Hev].
  Qed.

  Theorem prf_pure fuel h : forall m, insts_ok m ->
    run_history aes fuel h m = map (fun ic => spec_call aes fuel (snd ic)) h.
  Proof.
    induction h as [|[i c] h IH]; intros m Hm; cbn [run_history map]; [reflexivity|].
    pose proof (eval_prf_node_spec fuel (inst_find i m) c (inst_find_ok i m Hm)) as [H1 H2].
    destruct (eval_prf_node aes fuel (inst_find i m) c) as [v e']. cbn [fst snd] in *.
    rewrite H1. f_equal. apply IH. constructor; [exact H2 | exact Hm].
  Qed.

  Lemma prng_bytes_rel seed :
    forall g p n, (prng_key g = seed /\ Inv aes seed 0 (prng_sess g) p) ->
      rrel (fun g p => prng_key g = seed /\ Inv aes seed 0 (prng_sess g) p)
           (prng_bytes aes g n) (pure_bytes (stream_byte aes seed 0) p n).
  Proof.
    intros g p n [Hk HI]. unfold prng_bytes. rewrite Hk.
    destruct (sess_bytes_stream aes seed 0 (prng_sess g) p n HI) as (s' & -> & HI'). cbn. auto.
  Qed.

  Theorem prng_replay fuel seed ops : prng_observe aes fuel seed ops = spec_prng aes fuel seed ops.
  Proof.
    unfold prng_observe, spec_prng.
    apply prng_run_rel with (R := fun g p => prng_key g = seed /\ Inv aes seed 0 (prng_sess g) p).
    - apply prng_bytes_rel.
    - split; [reflexivity|]. apply Inv_new. unfold BUFFER_SIZE. lia.
  Qed.
End Pure.

(* ---------------------------------------------------------------- D3. blocks_disjoint *)
Theorem ctr_injective iv iv' j j' :
  0 <= iv < 2 ^ 64 -> 0 <= iv' < 2 ^ 64 -> 0 <= j < 2 ^ 64 -> 0 <= j' < 2 ^ 64 ->
  ctr iv j = ctr iv' j' -> iv = iv' /\ j = j'.
Proof.
  intros H1 H2 H3 H4. unfold ctr. rewrite !Z.mod_small by lia. lia.
Qed.
Theorem blocks_disjoint iv iv' j j' :
  0 <= iv < 2 ^ 64 -> 0 <= iv' < 2 ^ 64 -> 0 <= j < 2 ^ 64 -> 0 <= j' < 2 ^ 64 ->
  iv <> iv' -> ctr iv j <> ctr iv' j'.
Proof. intros H1 H2 H3 H4 Hne E. destruct (ctr_injective iv iv' j j' H1 H2 H3 H4 E). contradiction. Qed.

(* ---------------------------------------------------------------- D4. value_in_domain *)
(* types as Rust holds them: dimensions and vector lengths are u64, hence non-negative *)
Fixpoint ty_u64 (t : ty) : Prop :=
  match t with
  | TScalar _ => True
  | TArray sh _ => Forall (fun x => 0 <= x) sh
  | TVector n t1 => 0 <= n /\ ty_u64 t1
  | TTuple ts => (fix go (l : list ty) : Prop :=
                    match l with [] => True | x :: r => ty_u64 x /\ go r end) ts
  | TNamed fs => (fix go (l : list (string * ty)) : Prop :=
                    match l with [] => True | x :: r => ty_u64 (snd x) /\ go r end) fs
  end.
Lemma ty_u64_tuple ts : ty_u64 (TTuple ts) <-> Forall ty_u64 ts.
Proof.
  cbn [ty_u64]. induction ts as [|t ts IH]; [split; constructor|].
  rewrite Forall_cons_iff, <- IH. reflexivity.
Qed.
Lemma ty_u64_named fs : ty_u64 (TNamed fs) <-> Forall (fun p => ty_u64 (snd p)) fs.
Proof.
  cbn [ty_u64]. induction fs as [|t ts IH]; [split; constructor|].
  rewrite Forall_cons_iff, <- IH. reflexivity.
Qed.

(* ceil(bits/8) bytes, each a byte, and the bits of the last byte above the type's size are 0 *)
Definition leaf_ok (b : list Z) (bits : Z) : Prop :=
  Z.of_nat (length b) = (bits + 7) / 8 /\ Forall byte b /\
  last b 0 < 2 ^ (8 - (8 * ((bits + 7) / 8) - bits)).
Inductive valid_enc : bvalue -> ty -> Prop :=
| V_scalar b s n : size_in_bits (TScalar s) = Ok n -> leaf_ok b n -> valid_enc (BBytes b) (TScalar s)
| V_array b sh s n : size_in_bits (TArray sh s) = Ok n -> leaf_ok b n -> valid_enc (BBytes b) (TArray sh s)
| V_vector vs n t : length vs = Z.to_nat n -> Forall (fun v => valid_enc v t) vs ->
                    valid_enc (BVec vs) (TVector n t)
| V_tuple vs ts : Forall2 valid_enc vs ts -> valid_enc (BVec vs) (TTuple ts)
| V_named vs fs : Forall2 valid_enc vs (map snd fs) -> valid_enc (BVec vs) (TNamed fs).

Lemma shr_last_cons2 b b' r k : shr_last (b :: b' :: r) k = b :: shr_last (b' :: r) k.
Proof. reflexivity. Qed.
Lemma shr_last_spec bs k : 0 <= k <= 8 -> Forall byte bs ->
  length (shr_last bs k) = length bs /\ Forall byte (shr_last bs k) /\ last (shr_last bs k) 0 < 2 ^ (8 - k).
Proof.
  intros Hk. assert (P : 0 < 2 ^ (8 - k)) by (apply Z.pow_pos_nonneg; lia).
  induction bs as [|b bs IH]; intros Hb.
  - cbn. auto.
  - apply Forall_cons_iff in Hb as [Hb Hbs]. destruct bs as [|b' r].
    + cbn [shr_last length last]. unfold byte in *.
      assert (E : 256 = 2 ^ k * 2 ^ (8 - k)) by (rewrite <- Z.pow_add_r by lia; replace (k + (8 - k)) with 8 by lia; reflexivity).
      assert (0 < 2 ^ k) by (apply Z.pow_pos_nonneg; lia).
      assert (Hq : b / 2 ^ k < 2 ^ (8 - k)) by (apply Z.div_lt_upper_bound; lia).
      assert (0 <= b / 2 ^ k) by (apply Z.div_pos; lia).
      assert (2 ^ (8 - k) <= 256) by nia.
      repeat split; auto. constructor; [lia | constructor].
    + rewrite shr_last_cons2. destruct (IH Hbs) as (L & F & La).
      repeat split.
      * cbn [length] in *. lia.
      * constructor; auto.
      * change (last (b :: shr_last (b' :: r) k) 0) with
          (match shr_last (b' :: r) k with [] => b | _ :: _ => last (shr_last (b' :: r) k) 0 end).
        destruct (shr_last (b' :: r) k) eqn:E; [cbn in L; lia | exact La].
Qed.

Lemma fold_left_err {A} (F : result Z -> A -> result Z) l :
  (forall x, F Err x = Err) -> fold_left F l Err = Err.
Proof. intros HF. induction l as [|x l IH]; cbn; [reflexivity|]. now rewrite HF. Qed.
Lemma array_bits_nonneg sh s n : Forall (fun x => 0 <= x) sh -> size_in_bits_raw (TArray sh s) = Ok n -> 0 <= n.
Proof.
  intros Hsh. cbn [size_in_bits_raw]. intros H. apply bind_ok_inv in H as (pr & Hpr & Hn).
  assert (G : forall l a, Forall (fun x => 0 <= x) l -> 0 <= a ->
                fold_left (fun acc x => let* a := acc in chk64 (a * x)) l (Ok a) = Ok pr -> 0 <= pr).
  { clear. induction l as [|x l IH]; intros a Hl Ha; cbn [fold_left].
    - intros [= <-]. exact Ha.
    - apply Forall_cons_iff in Hl as [Hx Hl]. cbn [bind]. unfold chk64 at 2.
      destruct (a * x <=? u64_max).
      + apply IH; [exact Hl | nia].
      + rewrite fold_left_err; [discriminate | reflexivity]. }
  pose proof (G sh 1 Hsh ltac:(lia) Hpr) as Hp.
  unfold chk64 in Hn. destruct (width s * pr <=? u64_max); [|discriminate].
  injection Hn as <-. pose proof (width_pos s). nia.
Qed.
Lemma size_in_bits_raw_of t n : size_in_bits t = Ok n -> size_in_bits_raw t = Ok n.
Proof. unfold size_in_bits. destruct (ty_valid t); [auto | discriminate]. Qed.

Section Domain.
  Context {St : Type} (bytes : St -> nat -> result (list Z * St)).
  Hypothesis Hbytes : forall s n bs s', bytes s n = Ok (bs, s') -> length bs = n /\ Forall byte bs.

  Lemma gen_leaf_ok t s v s' n :
    size_in_bits t = Ok n -> 0 <= n -> gen_leaf bytes t s = Ok (v, s') ->
    exists b, v = BBytes b /\ leaf_ok b n.
  Proof.
    intros Hn Hn0. unfold gen_leaf. rewrite Hn. cbn [bind]. intros H.
    apply bind_ok_inv in H as ([bs s1] & Hb & H). injection H as <- <-.
    destruct (Hbytes _ _ _ _ Hb) as [Hl Hf].
    set (k := 8 * ((n + 7) / 8) - n). assert (Hk : 0 <= k <= 8) by (subst k; lia).
    destruct (shr_last_spec bs k Hk Hf) as (L & F & La).
    eexists. split; [reflexivity|]. unfold leaf_ok. rewrite L, Hl. repeat split; auto.
    rewrite Z2Nat.id; [reflexivity | lia].
  Qed.

  Lemma mapS_Forall2 {A B} (P : B -> A -> Prop) (g : A -> St -> result (B * St)) l :
    Forall (fun x => forall s y s', g x s = Ok (y, s') -> P y x) l ->
    forall s ys s', mapS g l s = Ok (ys, s') -> Forall2 P ys l.
  Proof.
    induction 1 as [|x l Hx Hl IH]; intros s ys s'; cbn [mapS].
    - intros [= <- _]. constructor.
    - intros H. apply bind_ok_inv in H as ([y s1] & Hy & H).
      apply bind_ok_inv in H as ([ys1 s2] & Hys & H). injection H as <- <-.
      constructor; eauto.
  Qed.
  Lemma repS_Forall {B} (P : B -> Prop) (g : St -> result (B * St)) k :
    (forall s y s', g s = Ok (y, s') -> P y) ->
    forall s ys s', repS g k s = Ok (ys, s') -> Forall P ys /\ length ys = k.
  Proof.
    intros Hg. induction k as [|k IH]; intros s ys s'; cbn [repS].
    - intros [= <- _]. split; [constructor | reflexivity].
    - intros H. apply bind_ok_inv in H as ([y s1] & Hy & H).
      apply bind_ok_inv in H as ([ys1 s2] & Hys & H). injection H as <- <-.
      destruct (IH _ _ _ Hys). split; [constructor; eauto | cbn; lia].
  Qed.
  Lemma Forall2_map_r {A B C} (Q : A -> C -> Prop) (g : B -> C) l1 l2 :
    Forall2 (fun y p => Q y (g p)) l1 l2 -> Forall2 Q l1 (map g l2).
  Proof. induction 1; cbn; constructor; auto. Qed.

  Theorem gen_value_domain t : ty_u64 t ->
    forall s v s', gen_value bytes t s = Ok (v, s') -> valid_enc v t.
  Proof.
    induction t as [sc|sh sc|n t IH|ts IH|fs IH] using ty_ind'; intros Hu s v s'; cbn [gen_value].
    - intros H. destruct (size_in_bits (TScalar sc)) as [n| | |] eqn:En;
        try (unfold gen_leaf in H; rewrite En in H; discriminate).
      assert (Hn0 : 0 <= n).
      { apply size_in_bits_raw_of in En. cbn in En. injection En as <-. pose proof (width_pos sc). lia. }
      destruct (gen_leaf_ok _ _ _ _ _ En Hn0 H) as (b & -> & Hb). econstructor; eauto.
    - intros H. destruct (size_in_bits (TArray sh sc)) as [n| | |] eqn:En;
        try (unfold gen_leaf in H; rewrite En in H; discriminate).
      assert (Hn0 : 0 <= n) by (apply (array_bits_nonneg sh sc); [exact Hu | apply size_in_bits_raw_of, En]).
      destruct (gen_leaf_ok _ _ _ _ _ En Hn0 H) as (b & -> & Hb). econstructor; eauto.
    - intros H. apply bind_ok_inv in H as ([vs s1] & Hvs & H). injection H as <- <-.
      destruct Hu as [Hn Hu].
      destruct (repS_Forall (fun v => valid_enc v t) (gen_value bytes t) (Z.to_nat n) (IH Hu) _ _ _ Hvs).
      constructor; auto.
    - intros H. apply bind_ok_inv in H as ([vs s1] & Hvs & H). injection H as <- <-.
      constructor. apply ty_u64_tuple in Hu.
      apply (mapS_Forall2 valid_enc (gen_value bytes) ts) with (s := s) (s' := s1); [|exact Hvs].
      rewrite Forall_forall in *. intros x Hx. apply IH; auto.
    - intros H. apply bind_ok_inv in H as ([vs s1] & Hvs & H). injection H as <- <-.
      constructor. apply ty_u64_named in Hu. apply Forall2_map_r.
      apply (mapS_Forall2 (fun y p => valid_enc y (snd p)) (fun p => gen_value bytes (snd p)) fs)
        with (s := s) (s' := s1); [|exact Hvs].
      rewrite Forall_forall in *. intros x Hx. apply IH; auto.
  Qed.
End Domain.

(* a valid encoding has the layout check_type accepts (C13: check_type_iff_layout) *)
Lemma valid_enc_layout t : ty_u64 t -> forall v, valid_enc v t -> layout v t.
Proof.
  induction t as [sc|sh sc|n t IH|ts IH|fs IH] using ty_ind'; intros Hu v Hv; inversion Hv; subst.
  - match goal with H : leaf_ok _ _ |- _ => destruct H as (L & _ & _) end.
    match goal with H : size_in_bits _ = Ok _ |- _ => apply size_in_bits_raw_of in H; cbn in H; injection H as <- end.
    constructor. exact L.
  - match goal with H : leaf_ok _ _ |- _ => destruct H as (L & _ & _) end.
    match goal with H : size_in_bits _ = Ok _ |- _ => apply size_in_bits_raw_of in H end.
    econstructor; eauto.
  - destruct Hu as [Hn Hu]. constructor; [lia|].
    match goal with H : Forall _ vs |- _ => rename H into Hvs end.
    rewrite Forall_forall in *. intros x Hx. apply IH; auto.
  - constructor. apply ty_u64_tuple in Hu.
    match goal with H : Forall2 valid_enc vs ts |- _ => rename H into H2 end.
    clear Hv. induction H2 as [|x t0 vs0 ts0 Hx H2 IH2]; constructor.
    + apply Forall_cons_iff in IH as [IHa _]. apply Forall_cons_iff in Hu as [Hua _]. apply IHa; auto.
    + apply Forall_cons_iff in IH as [_ IHb]. apply Forall_cons_iff in Hu as [_ Hub]. apply IH2; auto.
  - constructor. apply ty_u64_named in Hu.
    match goal with H : Forall2 valid_enc vs (map snd fs) |- _ => rename H into H2 end.
    clear Hv. revert vs H2. induction fs as [|f0 fs0 IHfs]; intros vs H2; inversion H2; subst; constructor.
    + apply Forall_cons_iff in IH as [IHa _]. apply Forall_cons_iff in Hu as [Hua _]. apply IHa; auto.
    + apply Forall_cons_iff in IH as [_ IHb]. apply Forall_cons_iff in Hu as [_ Hub]. apply IHfs; auto.
Qed.

Theorem value_in_domain aes p iv t v :
  ty_u64 t -> prf_output_value aes p iv t = Ok v ->
  valid_enc v t /\ check_type_raw v t = true.
Proof.
  intros Hu H. destruct p as [key]. rewrite prf_value_spec in H. unfold spec_value in H.
  apply bind_ok_inv in H as ([v' p'] & Hg & H). injection H as <-.
  assert (Hv : valid_enc v' t).
  { apply (gen_value_domain (pure_bytes (stream_byte aes key iv))) with (s := 0%nat) (s' := p'); auto.
    intros s n bs s' Hb. unfold pure_bytes in Hb. injection Hb as <- _.
    split; [apply seg_length | apply seg_Forall, stream_byte_range]. }
  split; [exact Hv|]. apply check_type_iff_layout, valid_enc_layout; auto.
Qed.

(* the PRNG's get_random_value / Operation::Random: every value output is a valid encoding *)
Theorem prng_value_in_domain aes fuel seed ops k t v :
  nth_error ops k = Some (OpValue t) -> ty_u64 t ->
  nth_error (prng_observe aes fuel seed ops) k = Some (Ok (OutValue v)) ->
  valid_enc v t.
Proof.
  rewrite prng_replay. unfold spec_prng. generalize 0%nat as p.
  revert k. induction ops as [|op r IH]; intros k p Hop Hu Hk; [destruct k; discriminate|].
  cbn [prng_run] in Hk.
  destruct (prng_step _ fuel op p) as [[o p']| | |] eqn:Es.
  - destruct k as [|k]; cbn [nth_error] in *.
    + injection Hop as ->. injection Hk as ->. cbn [prng_step] in Es.
      apply bind_ok_inv in Es as ([v' p1] & Hg & H). injection H as <- _.
      apply (gen_value_domain (pure_bytes (stream_byte aes seed 0))) with (s := p) (s' := p1); auto.
      intros s n bs s' Hb. unfold pure_bytes in Hb. injection Hb as <- _.
      split; [apply seg_length | apply seg_Forall, stream_byte_range].
    + eapply IH; eauto.
  - destruct k as [|[|k]]; cbn [nth_error] in Hk; discriminate.
  - destruct k as [|[|k]]; cbn [nth_error] in Hk; discriminate.
  - destruct k as [|[|k]]; cbn [nth_error] in Hk; discriminate.
Qed.

(* ---------------------------------------------------------------- D5. perm_is_perm *)
Lemma upd_length a : forall i v, length (upd a i v) = length a.
Proof. induction a as [|x a IH]; intros [|i] v; cbn; auto. Qed.
Lemma nth_error_upd a : forall i v n,
  nth_error (upd a i v) n =
  if (n =? i)%nat then (if (i <? length a)%nat then Some v else None) else nth_error a n.
Proof.
  induction a as [|x a IH]; intros i v n.
  - cbn [upd]. destruct i; cbn [upd]; destruct (n =? _)%nat; destruct n; reflexivity.
  - destruct i as [|i], n as [|n]; cbn [upd nth_error length]; try reflexivity.
    rewrite IH. change (S n =? S i)%nat with (n =? i)%nat. change (S i <? S (length a))%nat with (i <? length a)%nat.
    reflexivity.
Qed.

Lemma swap_perm a i j a1 : swap a i j = Ok a1 -> Permutation a a1.
Proof.
  unfold swap. destruct (nth_error a i) as [x|] eqn:Hi; [|discriminate].
  destruct (nth_error a j) as [y|] eqn:Hj; [|discriminate]. intros [= <-].
  assert (Li : (i < length a)%nat) by (apply nth_error_Some; congruence).
  assert (Lj : (j < length a)%nat) by (apply nth_error_Some; congruence).
  apply Permutation_nth_error. split; [now rewrite !upd_length|].
  exists (fun n => if (n =? j)%nat then i else if (n =? i)%nat then j else n). split.
  - intros n m. destruct (n =? j)%nat eqn:E1, (n =? i)%nat eqn:E2, (m =? j)%nat eqn:E3, (m =? i)%nat eqn:E4;
      repeat match goal with
             | H : (_ =? _)%nat = true |- _ => apply Nat.eqb_eq in H
             | H : (_ =? _)%nat = false |- _ => apply Nat.eqb_neq in H
             end; lia.
  - intros n. rewrite !nth_error_upd, upd_length.
    replace (j <? length a)%nat with true by (symmetry; apply Nat.ltb_lt; exact Lj).
    replace (i <? length a)%nat with true by (symmetry; apply Nat.ltb_lt; exact Li).
    destruct (n =? j)%nat eqn:E1; [now rewrite Hi|].
    destruct (n =? i)%nat eqn:E2; [now rewrite Hj | reflexivity].
Qed.
Lemma swap_in_range a i j : (i < length a)%nat -> (j < length a)%nat -> exists a1, swap a i j = Ok a1 /\ length a1 = length a.
Proof.
  intros Hi Hj. unfold swap.
  destruct (nth_error a i) as [x|] eqn:Ei; [|apply nth_error_None in Ei; lia].
  destruct (nth_error a j) as [y|] eqn:Ej; [|apply nth_error_None in Ej; lia].
  eexists. split; [reflexivity | now rewrite !upd_length].
Qed.

Section Perm.
  Context {St : Type} (number : St -> nat -> result (Z * St)).

  (* an accepted draw: the result is x mod m for a drawn x <= bound *)
  Lemma u32_loop_accepts fuel need bound m : forall s v s',
    u32_loop number fuel need bound m s = Ok (v, s') -> exists x, x <= bound /\ v = x mod m.
  Proof.
    induction fuel as [|f IH]; intros s v s'; cbn [u32_loop]; [discriminate|].
    intros H. apply bind_ok_inv in H as ([r s1] & Hr & H).
    destruct (r <=? bound) eqn:E; [|eauto]. injection H as <- <-. exists r. split; [lia | reflexivity].
  Qed.
  Lemma u32_in_range_lt fuel m s v s' : 0 < m -> u32_in_range number fuel m s = Ok (v, s') -> 0 <= v < m.
  Proof.
    intros Hm. unfold u32_in_range. destruct (m =? 0); [discriminate|]. intros H.
    apply u32_loop_accepts in H as (x & _ & ->). apply Z.mod_pos_bound, Hm.
  Qed.
  Lemma fy_loop_perm fuel cnt : forall i a s a' s',
    fy_loop number fuel cnt i a s = Ok (a', s') -> Permutation a a'.
  Proof.
    induction cnt as [|c IH]; intros i a s a' s'; cbn [fy_loop].
    - intros [= <- _]. apply Permutation_refl.
    - intros H. apply bind_ok_inv in H as ([j s1] & Hj & H).
      apply bind_ok_inv in H as (a1 & Hsw & H).
      eapply Permutation_trans; [eapply swap_perm, Hsw | eapply IH, H].
  Qed.

  (* with a number source that never fails, the loop ends with a permutation or runs out of
     fuel: the swaps are always in range *)
  Hypothesis Hnumber : forall s need, (1 <= need <= 8)%nat -> exists x s', number s need = Ok (x, s').
  Lemma u32_loop_total fuel need bound m : (1 <= need <= 8)%nat -> forall s,
    u32_loop number fuel need bound m s = OutOfFuel \/ exists v s', u32_loop number fuel need bound m s = Ok (v, s').
  Proof.
    intros Hn. induction fuel as [|f IH]; intros s; cbn [u32_loop]; [auto|].
    destruct (Hnumber s need Hn) as (x & s1 & ->). cbn [bind].
    destruct (x <=? bound); [right; eauto | apply IH].
  Qed.
  Lemma u32_need_bytes_range m : 1 <= m <= 2 ^ 32 -> 1 <= u32_need_bytes m <= 5.
  Proof.
    intros Hm. unfold u32_need_bytes.
    pose proof (Z.log2_up_nonneg m). pose proof (Z.log2_up_le_mono m (2 ^ 32) ltac:(lia)) as H1.
    rewrite Z.log2_up_pow2 in H1 by lia. lia.
  Qed.
  Lemma fy_loop_total fuel cnt : forall i a s,
    (1 <= i)%nat -> (i + cnt = length a)%nat -> Z.of_nat (length a) <= 2 ^ 32 ->
    fy_loop number fuel cnt i a s = OutOfFuel \/ exists a' s', fy_loop number fuel cnt i a s = Ok (a', s').
  Proof.
    induction cnt as [|c IH]; intros i a s Hi Hl Hb; cbn [fy_loop]; [right; eauto|].
    unfold u32_in_range. replace (Z.of_nat i + 1 =? 0) with false by (symmetry; apply Z.eqb_neq; lia).
    assert (Hnb : 1 <= u32_need_bytes (Z.of_nat i + 1) <= 5) by (apply u32_need_bytes_range; lia).
    destruct (u32_loop_total fuel (Z.to_nat (u32_need_bytes (Z.of_nat i + 1))) (u32_bound (Z.of_nat i + 1))
                (Z.of_nat i + 1) ltac:(lia) s) as [->|(j & s1 & Hj)]; [left; reflexivity|].
    rewrite Hj. cbn [bind].
    apply u32_loop_accepts in Hj as (x & _ & ->).
    pose proof (Z.mod_pos_bound x (Z.of_nat i + 1) ltac:(lia)) as Hx.
    destruct (swap_in_range a i (Z.to_nat (x mod (Z.of_nat i + 1))) ltac:(lia) ltac:(lia)) as (a1 & -> & La).
    cbn [bind]. apply IH; lia.
  Qed.
End Perm.

Section PermBytes.
  Context {St : Type} (bytes : St -> nat -> result (list Z * St)).
  Lemma in_range_loop_accepts fuel bound m : forall s v s',
    in_range_loop bytes fuel bound m s = Ok (v, s') -> exists x, x <= bound /\ v = x mod m.
  Proof.
    induction fuel as [|f IH]; intros s v s'; cbn [in_range_loop]; [discriminate|].
    intros H. apply bind_ok_inv in H as ([r s1] & Hr & H).
    destruct (r <=? bound) eqn:E; [|eauto]. injection H as <- <-. exists r. split; [lia | reflexivity].
  Qed.
  Lemma get_random_in_range_lt fuel m s v s' :
    0 < m -> get_random_in_range bytes fuel (Some m) s = Ok (v, s') -> 0 <= v < m.
  Proof.
    intros Hm. cbn [get_random_in_range]. destruct (m =? 0); [discriminate|]. intros H.
    apply in_range_loop_accepts in H as (x & _ & ->). apply Z.mod_pos_bound, Hm.
  Qed.

  Lemma shuffle_loop_perm fuel i : forall a s a' s',
    shuffle_loop bytes fuel i a s = Ok (a', s') -> Permutation a a'.
  Proof.
    induction i as [|i IH]; intros a s a' s'; cbn [shuffle_loop].
    - intros [= <- _]. apply Permutation_refl.
    - intros H. apply bind_ok_inv in H as ([j s1] & Hj & H).
      apply bind_ok_inv in H as (a1 & Hsw & H).
      eapply Permutation_trans; [eapply swap_perm, Hsw | eapply IH, H].
  Qed.

End PermBytes.

Lemma iota_length n : length (iota n) = n.
Proof. unfold iota. now rewrite map_length, seq_length. Qed.
Lemma iota_range n x : In x (iota n) -> 0 <= x < Z.of_nat n.
Proof. unfold iota. intros H. apply in_map_iff in H as (i & <- & Hi). apply in_seq in Hi. lia. Qed.

(* the u64 little-endian encoding Value::from_flattened_array_u64(.., UINT64) gives a list of
   non-negative numbers *)
Lemma vec_u64_to_bytes_nonneg l : Forall (fun x => 0 <= x) l ->
  vec_u64_to_bytes U64 l = Ok (flat_map (le_bytes 8) l).
Proof.
  intros H. cbn [vec_u64_to_bytes]. f_equal. induction H as [|x l Hx Hl IH]; cbn [flat_map]; [reflexivity|].
  rewrite IH. f_equal. unfold as_u64. replace (0 <=? x) with true by (symmetry; apply Z.leb_le; exact Hx).
  reflexivity.
Qed.

Theorem perm_is_perm aes fuel p iv n v :
  prf_output_permutation aes fuel p iv n = Ok v ->
  exists l, Permutation (iota (Z.to_nat n)) l /\ v = BBytes (flat_map (le_bytes 8) l).
Proof.
  unfold prf_output_permutation. destruct (2 ^ 30 <? n); [discriminate|]. intros H.
  apply bind_ok_inv in H as ([a' s'] & Hf & H). apply bind_ok_inv in H as (b & Hb & H). injection H as <-.
  pose proof (fy_loop_perm _ _ _ _ _ _ _ _ Hf) as HP. exists a'. split; [exact HP|].
  rewrite vec_u64_to_bytes_nonneg in Hb.
  - injection Hb as <-. reflexivity.
  - apply Forall_forall. intros x Hx. apply Permutation_sym in HP.
    pose proof (iota_range _ _ (Permutation_in _ HP Hx)). lia.
Qed.

(* for a permutation length the evaluator accepts, the only other outcome is OutOfFuel *)
Theorem perm_total aes fuel key iv n :
  0 <= n <= 2 ^ 30 ->
  prf_output_permutation aes fuel (mkPrf key) iv n = OutOfFuel \/
  exists l, Permutation (iota (Z.to_nat n)) l /\
            prf_output_permutation aes fuel (mkPrf key) iv n = Ok (BBytes (flat_map (le_bytes 8) l)).
Proof.
  intros Hn. rewrite prf_perm_spec. unfold spec_permutation.
  replace (2 ^ 30 <? n) with false by (symmetry; apply Z.ltb_ge; lia).
  destruct (Z.to_nat n) as [|k] eqn:En.
  { right. exists []. split; [constructor | reflexivity]. }
  destruct (fy_loop_total (pure_number (stream_byte aes key iv))) with (fuel := fuel) (cnt := (S k - 1)%nat)
    (i := 1%nat) (a := iota (S k)) (s := 0%nat) as [E|(a' & s' & E)].
  - intros s need Hneed. unfold pure_number.
    replace ((1 <=? need)%nat && (need <=? 8)%nat) with true; [eauto|].
    symmetry. apply andb_true_iff. split; apply Nat.leb_le; lia.
  - lia.
  - rewrite iota_length. lia.
  - rewrite iota_length. assert (2 ^ 30 < 2 ^ 32) by (apply Z.pow_lt_mono_r; lia). lia.
  - left. rewrite E. reflexivity.
  - right. rewrite E. cbn [bind]. pose proof (fy_loop_perm _ _ _ _ _ _ _ _ E) as HP.
    exists a'. split; [exact HP|]. rewrite vec_u64_to_bytes_nonneg; [reflexivity|].
    apply Forall_forall. intros x Hx. apply Permutation_sym in HP.
    pose proof (iota_range _ _ (Permutation_in _ HP Hx)). lia.
Qed.

(* Operation::RandomPermutation through shuffle_array *)
Theorem shuffle_is_perm {St} (bytes : St -> nat -> result (list Z * St)) fuel a s a' s' :
  shuffle_array bytes fuel a s = Ok (a', s') -> Permutation a a'.
Proof. apply shuffle_loop_perm. Qed.

(* ---------------------------------------------------------------- D6. rejection_unbiased *)
(* the draws 0..B with B+1 = q*m split into m residue classes of exactly q elements each:
   the class of r is { k*m + r | 0 <= k < q } *)
Lemma residue_classes m B q r x :
  0 < m -> B + 1 = q * m -> 0 <= r < m ->
  (0 <= x <= B /\ x mod m = r) <-> (exists k, 0 <= k < q /\ x = k * m + r).
Proof.
  intros Hm HB Hr. split.
  - intros [Hx Hmod]. exists (x / m). pose proof (Z.div_mod x m ltac:(lia)) as E.
    assert (0 <= x / m) by (apply Z.div_pos; lia).
    split; [|lia]. split; [lia|]. apply Z.div_lt_upper_bound; nia.
  - intros (k & Hk & ->). split; [nia|].
    rewrite Z.add_comm, Z.mod_add by lia. apply Z.mod_small, Hr.
Qed.
Lemma class_members_distinct m r k k' : 0 < m -> k * m + r = k' * m + r -> k = k'.
Proof. intros Hm H. nia. Qed.

Lemma pow2_ge_log2_up m : 1 <= m -> m <= 2 ^ Z.log2_up m.
Proof.
  intros Hm. destruct (Z.eq_dec m 1) as [->|Hne]; [cbn; lia|].
  apply (Z.log2_up_spec m). lia.
Qed.

Theorem u32_rejection_unbiased m :
  0 < m ->
  let N := 2 ^ (u32_need_bytes m * 8) in
  let B := u32_bound m in
  exists q, 0 < q /\ B + 1 = q * m /\ 0 <= B < N /\
    (forall r x, 0 <= r < m ->
       (0 <= x <= B /\ x mod m = r) <-> (exists k, 0 <= k < q /\ x = k * m + r)).
Proof.
  intros Hm N B. subst B. unfold u32_bound. fold N.
  replace (N - 1 + 1) with N by lia.
  pose proof (Z.log2_up_nonneg m) as HL.
  assert (HN : m <= N).
  { subst N. eapply Z.le_trans; [apply pow2_ge_log2_up; lia|].
    apply Z.pow_le_mono_r; [lia|]. unfold u32_need_bytes. lia. }
  assert (HNpos : 0 < N) by lia.
  pose proof (Z.mod_pos_bound N m Hm) as Hmod. pose proof (Z.div_mod N m ltac:(lia)) as E.
  exists (N / m). assert (Hq : 0 < N / m) by (apply Z.div_str_pos; lia).
  split; [lia|]. split; [lia|]. split; [lia|].
  intros r x Hr. apply residue_classes; lia.
Qed.

Theorem u64_rejection_unbiased m :
  0 < m < 2 ^ 64 ->
  let B := in_range_bound m in
  exists q, 0 < q /\ B + 1 = q * m /\ 0 <= B < 2 ^ 64 /\
    (forall r x, 0 <= r < m ->
       (0 <= x <= B /\ x mod m = r) <-> (exists k, 0 <= k < q /\ x = k * m + r)).
Proof.
  intros Hm B. subst B. unfold in_range_bound, u64_max.
  rewrite Zplus_mod_idemp_l. replace (2 ^ 64 - 1 + 1) with (2 ^ 64) by lia.
  set (N := 2 ^ 64) in *. assert (HNpos : 0 < N) by (subst N; lia).
  pose proof (Z.mod_pos_bound N m ltac:(lia)) as Hmod. pose proof (Z.div_mod N m ltac:(lia)) as E.
  exists (N / m). assert (Hq : 0 < N / m) by (apply Z.div_str_pos; lia).
  split; [lia|]. split; [lia|]. split; [lia|].
  intros r x Hr. apply residue_classes; lia.
Qed.

(* ---------------------------------------------------------------- D7. counting preimages *)
Definition zrange (n : Z) : list Z := map Z.of_nat (seq 0 (Z.to_nat n)).
(* number of draws x in 0..B with x mod m = r *)
Definition preimages (m r B : Z) : nat :=
  length (filter (fun x => x mod m =? r) (zrange (B + 1))).

Lemma filter_map_length {A B} (f : B -> bool) (g : A -> B) l :
  length (filter f (map g l)) = length (filter (fun x => f (g x)) l).
Proof. induction l as [|x l IH]; cbn; [reflexivity|]. destruct (f (g x)); cbn; now rewrite IH. Qed.
Lemma count_eq_seq rr n : forall a,
  length (filter (fun j => j =? rr)%nat (seq a n)) =
  if ((a <=? rr) && (rr <? a + n))%nat then 1%nat else 0%nat.
Proof.
  induction n as [|n IH]; intros a; cbn [seq filter].
  - replace (rr <? a + 0)%nat with (rr <? a)%nat by (f_equal; lia).
    destruct (a <=? rr)%nat eqn:E1, (rr <? a)%nat eqn:E2; try reflexivity.
    apply Nat.leb_le in E1. apply Nat.ltb_lt in E2. lia.
  - rewrite <- Nat.add_succ_comm. destruct (a =? rr)%nat eqn:E.
    + apply Nat.eqb_eq in E. subst a. cbn [length]. rewrite IH.
      replace (S rr <=? rr)%nat with false by (symmetry; apply Nat.leb_gt; lia).
      replace (rr <=? rr)%nat with true by (symmetry; apply Nat.leb_le; lia).
      replace (rr <? S rr + n)%nat with true by (symmetry; apply Nat.ltb_lt; lia). reflexivity.
    + rewrite IH. apply Nat.eqb_neq in E.
      destruct (S a <=? rr)%nat eqn:E1, (a <=? rr)%nat eqn:E2; try reflexivity;
        [apply Nat.leb_le in E1; apply Nat.leb_gt in E2; lia
        |apply Nat.leb_gt in E1; apply Nat.leb_le in E2; lia].
Qed.

Lemma count_period m r k :
  0 < m -> 0 <= r < m ->
  length (filter (fun i => Z.of_nat i mod m =? r) (seq (k * Z.to_nat m) (Z.to_nat m))) = 1%nat.
Proof.
  intros Hm Hr. replace (k * Z.to_nat m)%nat with (k * Z.to_nat m + 0)%nat by lia.
  rewrite seq_offset, filter_map_length.
  rewrite (filter_ext_in _ (fun j => j =? Z.to_nat r)%nat).
  - rewrite count_eq_seq. cbn [Nat.leb andb Nat.add].
    replace (Z.to_nat r <? Z.to_nat m)%nat with true by (symmetry; apply Nat.ltb_lt; lia). reflexivity.
  - intros j Hj. apply in_seq in Hj. cbv beta.
    replace (Z.of_nat (k * Z.to_nat m + j)) with (Z.of_nat j + Z.of_nat k * m) by lia.
    rewrite Z.mod_add, Z.mod_small by lia.
    destruct (j =? Z.to_nat r)%nat eqn:E.
    + apply Nat.eqb_eq in E. apply Z.eqb_eq. lia.
    + apply Nat.eqb_neq in E. apply Z.eqb_neq. lia.
Qed.

Lemma count_periods m r : 0 < m -> 0 <= r < m -> forall q : nat,
  length (filter (fun i => Z.of_nat i mod m =? r) (seq 0 (q * Z.to_nat m))) = q.
Proof.
  intros Hm Hr. induction q as [|q IH]; [reflexivity|].
  replace (S q * Z.to_nat m)%nat with (q * Z.to_nat m + Z.to_nat m)%nat by lia.
  rewrite seq_app, filter_app, app_length, IH. cbn [Nat.add]. rewrite count_period by lia. lia.
Qed.

(* among the draws 0..q*m-1 every residue has exactly q preimages *)
Theorem preimages_count m q r : 0 < m -> 0 <= q -> 0 <= r < m -> preimages m r (q * m - 1) = Z.to_nat q.
Proof.
  intros Hm Hq Hr. unfold preimages, zrange. rewrite filter_map_length.
  replace (Z.to_nat (q * m - 1 + 1)) with (Z.to_nat q * Z.to_nat m)%nat by nia.
  apply count_periods; lia.
Qed.

Theorem u32_preimages_equal m r r' : 0 < m -> 0 <= r < m -> 0 <= r' < m ->
  preimages m r (u32_bound m) = preimages m r' (u32_bound m) /\ (0 < preimages m r (u32_bound m))%nat.
Proof.
  intros Hm Hr Hr'. destruct (u32_rejection_unbiased m Hm) as (q & Hq & HB & _ & _).
  replace (u32_bound m) with (q * m - 1) by lia. rewrite !preimages_count by lia. lia.
Qed.
Theorem u64_preimages_equal m r r' : 0 < m < 2 ^ 64 -> 0 <= r < m -> 0 <= r' < m ->
  preimages m r (in_range_bound m) = preimages m r' (in_range_bound m) /\ (0 < preimages m r (in_range_bound m))%nat.
Proof.
  intros Hm Hr Hr'. destruct (u64_rejection_unbiased m Hm) as (q & Hq & HB & _ & _).
  replace (in_range_bound m) with (q * m - 1) by lia. rewrite !preimages_count by lia. lia.
Qed.

(* all evaluator instances fresh *)
Theorem prf_pure_fresh aes fuel (h : list (nat * prf_call)) :
  run_history aes fuel h [] = map (fun ic => spec_call aes fuel (snd ic)) h.
Proof. apply prf_pure. constructor. Qed.

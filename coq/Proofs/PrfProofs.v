(* Proofs about Model/Prf.v (C15). *)
From Coq Require Import Permutation.
From CC Require Import Base.Prelude Base.Scalar Base.Ty Model.Bytes Proofs.BytesProofs Model.Prf.

(* ================================================================== A. relating two byte sources *)
Section Rel.
  Context {S1 S2 : Type} (R : S1 -> S2 -> Prop).
  (* same outcome, equal outputs, related states *)
  Definition rrel {A} (r1 : result (A * S1)) (r2 : result (A * S2)) : Prop :=
    match r1, r2 with
    | Ok (a, s1), Ok (b, s2) => a = b /\ R s1 s2
    | Err, Err | Panic, Panic | OutOfFuel, OutOfFuel => True
    | _, _ => False
    end.

  Lemma rrel_bind {A B} (r1 : result (A * S1)) (r2 : result (A * S2))
        (k1 : A * S1 -> result (B * S1)) (k2 : A * S2 -> result (B * S2)) :
    rrel r1 r2 ->
    (forall a s1 s2, R s1 s2 -> rrel (k1 (a, s1)) (k2 (a, s2))) ->
    rrel (bind r1 k1) (bind r2 k2).
  Proof.
    intros H K. destruct r1 as [[a s1]| | |], r2 as [[b s2]| | |]; cbn in *; try contradiction; auto.
    destruct H as [-> H]. apply K, H.
  Qed.

  (* a plain (state-free) intermediate result in front of both continuations *)
  Lemma rrel_bind_pure {A B} (r : result A) (k1 : A -> result (B * S1)) (k2 : A -> result (B * S2)) :
    (forall a, rrel (k1 a) (k2 a)) -> rrel (bind r k1) (bind r k2).
  Proof. intros K. destruct r; cbn; auto. Qed.

  Lemma rrel_ok {A} (a : A) s1 s2 : R s1 s2 -> rrel (Ok (a, s1)) (Ok (a, s2)).
  Proof. cbn. auto. Qed.

  Section Lists.
    Context {A B : Type} (f1 : A -> S1 -> result (B * S1)) (f2 : A -> S2 -> result (B * S2)).
    Lemma mapS_rel l :
      Forall (fun x => forall s1 s2, R s1 s2 -> rrel (f1 x s1) (f2 x s2)) l ->
      forall s1 s2, R s1 s2 -> rrel (mapS f1 l s1) (mapS f2 l s2).
    Proof.
      induction 1 as [|x l Hx Hl IH]; intros s1 s2 Hs; cbn [mapS].
      - apply rrel_ok, Hs.
      - apply rrel_bind; [apply Hx, Hs|]. intros y t1 t2 Ht.
        apply rrel_bind; [apply IH, Ht|]. intros ys u1 u2 Hu. apply rrel_ok, Hu.
    Qed.
  End Lists.
  Lemma repS_rel {B} (g1 : S1 -> result (B * S1)) (g2 : S2 -> result (B * S2)) k :
    (forall s1 s2, R s1 s2 -> rrel (g1 s1) (g2 s2)) ->
    forall s1 s2, R s1 s2 -> rrel (repS g1 k s1) (repS g2 k s2).
  Proof.
    intros Hg. induction k as [|k IH]; intros s1 s2 Hs; cbn [repS].
    - apply rrel_ok, Hs.
    - apply rrel_bind; [apply Hg, Hs|]. intros y t1 t2 Ht.
      apply rrel_bind; [apply IH, Ht|]. intros ys u1 u2 Hu. apply rrel_ok, Hu.
  Qed.

  Context (bytes1 : S1 -> nat -> result (list Z * S1)) (bytes2 : S2 -> nat -> result (list Z * S2)).
  Context (number1 : S1 -> nat -> result (Z * S1)) (number2 : S2 -> nat -> result (Z * S2)).
  Hypothesis Hbytes : forall s1 s2 n, R s1 s2 -> rrel (bytes1 s1 n) (bytes2 s2 n).
  Hypothesis Hnumber : forall s1 s2 n, R s1 s2 -> rrel (number1 s1 n) (number2 s2 n).

  Lemma gen_leaf_rel t s1 s2 : R s1 s2 -> rrel (gen_leaf bytes1 t s1) (gen_leaf bytes2 t s2).
  Proof.
    intros Hs. unfold gen_leaf. apply rrel_bind_pure. intros bits.
    apply rrel_bind; [apply Hbytes, Hs|]. intros bs t1 t2 Ht. apply rrel_ok, Ht.
  Qed.

  Lemma gen_value_rel t : forall s1 s2, R s1 s2 -> rrel (gen_value bytes1 t s1) (gen_value bytes2 t s2).
  Proof.
    induction t as [s|sh s|n t IH|ts IH|fs IH] using ty_ind'; intros s1 s2 Hs; cbn [gen_value].
    - apply gen_leaf_rel, Hs.
    - apply gen_leaf_rel, Hs.
    - apply rrel_bind; [apply repS_rel; auto|]. intros vs t1 t2 Ht. apply rrel_ok, Ht.
    - apply rrel_bind; [apply mapS_rel; auto|]. intros vs t1 t2 Ht. apply rrel_ok, Ht.
    - apply rrel_bind; [apply mapS_rel; auto|]. intros vs t1 t2 Ht. apply rrel_ok, Ht.
  Qed.

  Lemma u32_loop_rel fuel need bound m : forall s1 s2, R s1 s2 ->
    rrel (u32_loop number1 fuel need bound m s1) (u32_loop number2 fuel need bound m s2).
  Proof.
    induction fuel as [|f IH]; intros s1 s2 Hs; cbn [u32_loop]; [exact I|].
    apply rrel_bind; [apply Hnumber, Hs|]. intros r t1 t2 Ht.
    destruct (r <=? bound); [apply rrel_ok, Ht | apply IH, Ht].
  Qed.
  Lemma u32_in_range_rel fuel m s1 s2 : R s1 s2 ->
    rrel (u32_in_range number1 fuel m s1) (u32_in_range number2 fuel m s2).
  Proof.
    intros Hs. unfold u32_in_range. destruct (m =? 0); [exact I|]. apply u32_loop_rel, Hs.
  Qed.
  Lemma fy_loop_rel fuel cnt : forall i a s1 s2, R s1 s2 ->
    rrel (fy_loop number1 fuel cnt i a s1) (fy_loop number2 fuel cnt i a s2).
  Proof.
    induction cnt as [|c IH]; intros i a s1 s2 Hs; cbn [fy_loop]; [apply rrel_ok, Hs|].
    apply rrel_bind; [apply u32_in_range_rel, Hs|]. intros j t1 t2 Ht.
    apply rrel_bind_pure. intros a1. apply IH, Ht.
  Qed.

  Lemma read_u64_rel s1 s2 : R s1 s2 -> rrel (read_u64 bytes1 s1) (read_u64 bytes2 s2).
  Proof.
    intros Hs. unfold read_u64. apply rrel_bind; [apply Hbytes, Hs|]. intros bs t1 t2 Ht.
    apply rrel_bind_pure. intros [|x v]; [exact I|]. apply rrel_ok, Ht.
  Qed.
  Lemma in_range_loop_rel fuel bound m : forall s1 s2, R s1 s2 ->
    rrel (in_range_loop bytes1 fuel bound m s1) (in_range_loop bytes2 fuel bound m s2).
  Proof.
    induction fuel as [|f IH]; intros s1 s2 Hs; cbn [in_range_loop]; [exact I|].
    apply rrel_bind; [apply read_u64_rel, Hs|]. intros r t1 t2 Ht.
    destruct (r <=? bound); [apply rrel_ok, Ht | apply IH, Ht].
  Qed.
  Lemma get_random_in_range_rel fuel m s1 s2 : R s1 s2 ->
    rrel (get_random_in_range bytes1 fuel m s1) (get_random_in_range bytes2 fuel m s2).
  Proof.
    intros Hs. destruct m as [m|]; cbn [get_random_in_range]; [|apply read_u64_rel, Hs].
    destruct (m =? 0); [exact I|]. apply in_range_loop_rel, Hs.
  Qed.
  Lemma shuffle_loop_rel fuel i : forall a s1 s2, R s1 s2 ->
    rrel (shuffle_loop bytes1 fuel i a s1) (shuffle_loop bytes2 fuel i a s2).
  Proof.
    induction i as [|i IH]; intros a s1 s2 Hs; cbn [shuffle_loop]; [apply rrel_ok, Hs|].
    apply rrel_bind; [apply get_random_in_range_rel, Hs|]. intros j t1 t2 Ht.
    apply rrel_bind_pure. intros a1. apply IH, Ht.
  Qed.

  Lemma prng_step_rel fuel op s1 s2 : R s1 s2 ->
    rrel (prng_step bytes1 fuel op s1) (prng_step bytes2 fuel op s2).
  Proof.
    intros Hs. destruct op as [n|t|m|n]; cbn [prng_step].
    - apply rrel_bind; [apply Hbytes, Hs|]. intros b t1 t2 Ht. apply rrel_ok, Ht.
    - apply rrel_bind; [apply gen_value_rel, Hs|]. intros b t1 t2 Ht. apply rrel_ok, Ht.
    - apply rrel_bind; [apply get_random_in_range_rel, Hs|]. intros b t1 t2 Ht. apply rrel_ok, Ht.
    - apply rrel_bind; [apply shuffle_loop_rel, Hs|]. intros b t1 t2 Ht.
      apply rrel_bind_pure. intros bb. apply rrel_ok, Ht.
  Qed.
  Lemma prng_run_rel fuel ops : forall s1 s2, R s1 s2 ->
    prng_run bytes1 fuel ops s1 = prng_run bytes2 fuel ops s2.
  Proof.
    induction ops as [|op r IH]; intros s1 s2 Hs; cbn [prng_run]; [reflexivity|].
    pose proof (prng_step_rel fuel op s1 s2 Hs) as H.
    destruct (prng_step bytes1 fuel op s1) as [[o t1]| | |], (prng_step bytes2 fuel op s2) as [[o' t2]| | |];
      cbn in H; try contradiction; try reflexivity.
    destruct H as [-> Ht]. f_equal. apply IH, Ht.
  Qed.
End Rel.

(* ================================================================== B. list and byte facts *)
Lemma skipn_add {A} a b (l : list A) : skipn (a + b) l = skipn b (skipn a l).
Proof.
  revert l; induction a as [|a IH]; intros l; cbn [Nat.add skipn]; [reflexivity|].
  destruct l; [now rewrite skipn_nil|]. apply IH.
Qed.

Lemma seg_length f p n : length (seg f p n) = n.
Proof. unfold seg. now rewrite map_length, seq_length. Qed.
Lemma seg_app f p n m : seg f p (n + m) = seg f p n ++ seg f (p + n) m.
Proof. unfold seg. now rewrite seq_app, map_app. Qed.
Lemma firstn_seg f p n m : (n <= m)%nat -> firstn n (seg f p m) = seg f p n.
Proof.
  intros H. replace m with (n + (m - n))%nat by lia. rewrite seg_app.
  apply firstn_app_exact, seg_length.
Qed.
Lemma skipn_seg f p n m : (n <= m)%nat -> skipn n (seg f p m) = seg f (p + n) (m - n).
Proof.
  intros H. replace m with (n + (m - n))%nat at 1 by lia. rewrite seg_app.
  apply skipn_app_exact, seg_length.
Qed.
Lemma seg_0 f p : seg f p 0 = [].
Proof. reflexivity. Qed.
Lemma seg_Forall (P : Z -> Prop) f p n : (forall i, P (f i)) -> Forall P (seg f p n).
Proof. intros H. unfold seg. apply Forall_forall. intros x Hx. apply in_map_iff in Hx as (i & <- & _). apply H. Qed.

Lemma seq_offset a s n : seq (a + s) n = map (fun r => (a + r)%nat) (seq s n).
Proof.
  revert s; induction n as [|n IH]; intros s; cbn [seq map]; [reflexivity|].
  f_equal. replace (S (a + s)) with (a + S s)%nat by lia. apply IH.
Qed.
Lemma map_nth_seq {A} (l : list A) d : map (fun i => nth i l d) (seq 0 (length l)) = l.
Proof.
  induction l as [|x l IH]; cbn [length seq map]; [reflexivity|].
  f_equal. rewrite <- seq_shift, map_map. exact IH.
Qed.

Lemma from_le_bytes_app_zeros l k : from_le_bytes (l ++ repeat 0 k) = from_le_bytes l.
Proof.
  induction l as [|b l IH]; cbn [app from_le_bytes].
  - induction k as [|k IHk]; cbn [repeat from_le_bytes]; lia.
  - rewrite IH. reflexivity.
Qed.
Lemma from_le_bytes_bound l : Forall byte l -> 0 <= from_le_bytes l < 256 ^ Z.of_nat (length l).
Proof.
  induction 1 as [|b l Hb Hl IH]; cbn [from_le_bytes length].
  - cbn. lia.
  - rewrite Nat2Z.inj_succ, Z.pow_succ_r by lia. unfold byte in Hb. lia.
Qed.
Lemma land_mask_small x n : 0 <= n -> 0 <= x < 2 ^ n -> Z.land x (2 ^ n - 1) = x.
Proof.
  intros Hn Hx. replace (2 ^ n - 1) with (Z.ones n) by (rewrite Z.ones_equiv; lia).
  rewrite Z.land_ones by lia. apply Z.mod_small, Hx.
Qed.
Lemma pow256 n : 256 ^ Z.of_nat n = 2 ^ (Z.of_nat n * 8).
Proof. rewrite Z.mul_comm, Z.pow_mul_r by lia. reflexivity. Qed.

(* the number a `need`-byte read returns, for bytes in range *)
Lemma number_value l need :
  Forall byte l -> length l = need -> (1 <= need <= 8)%nat ->
  Z.land (from_le_bytes (l ++ repeat 0 (8 - need)))
         (if (need =? 8)%nat then u64_max else 2 ^ (Z.of_nat need * 8) - 1) = from_le_bytes l.
Proof.
  intros Hl Hlen Hneed. rewrite from_le_bytes_app_zeros.
  pose proof (from_le_bytes_bound l Hl) as B. rewrite Hlen, pow256 in B.
  destruct (need =? 8)%nat eqn:E.
  - apply Nat.eqb_eq in E. subst need. rewrite E in B. change (Z.of_nat 8 * 8) with 64 in B.
    unfold u64_max. apply land_mask_small; lia.
  - apply land_mask_small; lia.
Qed.

(* ================================================================== C. the session reads the stream *)
Section Stream.
  Variable aes : list Z -> Z -> Z.
  Variable key : list Z.
  Variable iv : Z.
  Notation f := (stream_byte aes key iv).

  Lemma enc_block_length c : length (enc_block aes key c) = 16%nat.
  Proof. apply le_bytes_length. Qed.

  Lemma stream_byte_range i : byte (f i).
  Proof.
    unfold stream_byte. pose proof (le_bytes_range 16 (aes key (ctr iv (Z.of_nat (i / 16))))) as H.
    rewrite Forall_nth in H. apply H. unfold enc_block. rewrite le_bytes_length.
    apply Nat.mod_upper_bound. lia.
  Qed.

  Lemma ctr_add b j : (ctr iv b + j) mod 2 ^ 128 = ctr iv (b + j).
  Proof. unfold ctr. rewrite Zplus_mod_idemp_l. f_equal. lia. Qed.
  Lemma ctr_0 : (iv * 2 ^ 64) mod 2 ^ 128 = ctr iv 0.
  Proof. unfold ctr. f_equal. lia. Qed.

  (* one block of the stream *)
  Lemma block_seg c : seg f (16 * c) 16 = enc_block aes key (ctr iv (Z.of_nat c)).
  Proof.
    unfold seg. replace (16 * c)%nat with (16 * c + 0)%nat by lia. rewrite seq_offset, map_map.
    rewrite <- (map_nth_seq (enc_block aes key (ctr iv (Z.of_nat c))) 0).
    rewrite enc_block_length. apply map_ext_in. intros r Hr. apply in_seq in Hr.
    unfold stream_byte. replace ((16 * c + r) mod 16)%nat with r by lia.
    replace ((16 * c + r) / 16)%nat with c by lia. reflexivity.
  Qed.

  Lemma blocks_seg b m : forall j0,
    flat_map (fun j => enc_block aes key ((ctr iv (Z.of_nat b) + Z.of_nat j) mod 2 ^ 128)) (seq j0 m)
    = seg f (16 * (b + j0)) (16 * m).
  Proof.
    induction m as [|m IH]; intros j0; cbn [seq flat_map].
    - reflexivity.
    - rewrite IH. replace (16 * S m)%nat with (16 + 16 * m)%nat by lia. rewrite seg_app.
      f_equal.
      + rewrite block_seg, ctr_add. do 2 f_equal. lia.
      + f_equal. lia.
  Qed.

  (* the session has served the first p bytes of the stream *)
  Definition Inv (s : session) (p : nat) : Prop :=
    s_cur s = length (s_buf s) /\ (s_next s <= s_cur s)%nat /\
    (s_nsz s mod 16 = 0)%nat /\ (0 < s_nsz s)%nat /\
    exists b : nat, (p + (s_cur s - s_next s) = 16 * b)%nat /\
                    s_input s = ctr iv (Z.of_nat b) /\
                    skipn (s_next s) (s_buf s) = seg f p (s_cur s - s_next s).

  Lemma Inv_new initial : (0 < initial)%nat -> Inv (session_new iv initial) 0.
  Proof.
    intros Hi. unfold session_new, BLOCK_SIZE.
    set (sz := ((initial + 16 - 1) / 16 * 16)%nat).
    assert (Hsz : (0 < sz /\ sz mod 16 = 0)%nat) by (subst sz; split; [lia | apply Nat.mod_mul; lia]).
    unfold Inv; cbn [s_cur s_buf s_next s_nsz s_input]. rewrite repeat_length.
    repeat split; try lia. exists 0%nat. repeat split; [lia | apply ctr_0 |].
    rewrite Nat.sub_diag. rewrite skipn_all2 by (rewrite repeat_length; lia). reflexivity.
  Qed.

  (* generate_one_batch on a session whose counter is at block b *)
  Lemma batch_spec s b :
    (s_nsz s mod 16 = 0)%nat -> (0 < s_nsz s)%nat -> s_input s = ctr iv (Z.of_nat b) ->
    exists s', generate_one_batch aes key s = Ok s' /\
      s_buf s' = seg f (16 * b) (s_nsz s) /\ s_next s' = 0%nat /\ s_cur s' = s_nsz s /\
      s_input s' = ctr iv (Z.of_nat (b + s_nsz s / 16)) /\
      (s_nsz s' mod 16 = 0)%nat /\ (0 < s_nsz s')%nat.
  Proof.
    intros Hm Hp Hin. unfold generate_one_batch, BLOCK_SIZE, BUFFER_SIZE.
    replace (s_nsz s mod 16 =? 0)%nat with true by (symmetry; apply Nat.eqb_eq; exact Hm).
    cbn [negb]. eexists. split; [reflexivity|]. cbn [s_buf s_next s_cur s_input s_nsz].
    rewrite Hin. repeat split.
    - rewrite blocks_seg. f_equal; lia.
    - rewrite ctr_add. f_equal. lia.
    - destruct (s_nsz s <? 512)%nat eqn:E; [|exact Hm].
      apply Nat.ltb_lt in E. destruct (Nat.min_spec 512 (s_nsz s * 2)) as [[_ ->]|[_ ->]]; [reflexivity|].
      lia.
    - destruct (s_nsz s <? 512)%nat; lia.
  Qed.

  Lemma slice_ok {A} (l : list A) a b : (a <= b <= length l)%nat -> slice l a b = Ok (firstn (b - a) (skipn a l)).
  Proof.
    intros H. unfold slice.
    replace ((a <=? b)%nat && (b <=? length l)%nat) with true; [reflexivity|].
    symmetry. apply andb_true_iff. split; apply Nat.leb_le; lia.
  Qed.

  Lemma Inv_advance s p n :
    Inv s p -> (n <= s_cur s - s_next s)%nat -> Inv (set_next s (s_next s + n)) (p + n).
  Proof.
    intros (Hc & Hn & Hm & Hp & b & Hb & Hin & Hsk) Hle. unfold Inv, set_next.
    cbn [s_cur s_buf s_next s_nsz s_input]. repeat split; try lia; auto.
    exists b. repeat split; [lia | exact Hin |].
    rewrite skipn_add, Hsk, skipn_seg by lia. f_equal. lia.
  Qed.

  (* fill_random_bytes: need more bytes of the stream, whatever is buffered *)
  Lemma fill_spec fuel : forall s need acc p,
    Inv s p ->
    (need + 2 <= fuel \/ (0 < s_cur s - s_next s /\ need + 1 <= fuel))%nat ->
    exists s', fill aes key fuel s need acc = Ok (acc ++ seg f p need, s') /\ Inv s' (p + need).
  Proof.
    induction fuel as [|fuel IH]; intros s need acc p HI Hfuel; [lia|].
    cbn [fill]. destruct (need =? 0)%nat eqn:E0.
    { apply Nat.eqb_eq in E0. subst need. exists s. rewrite seg_0, app_nil_r, Nat.add_0_r. auto. }
    apply Nat.eqb_neq in E0.
    pose proof HI as (Hc & Hn & Hm & Hp & b & Hb & Hin & Hsk).
    rewrite slice_ok by lia. cbn [bind].
    assert (Hready : firstn (s_cur s - s_next s) (skipn (s_next s) (s_buf s)) = seg f p (s_cur s - s_next s)).
    { rewrite firstn_all2; [exact Hsk | rewrite skipn_length; lia]. }
    rewrite Hready, seg_length.
    destruct (need <=? s_cur s - s_next s)%nat eqn:E.
    - apply Nat.leb_le in E. eexists. split; [|apply Inv_advance; eauto].
      rewrite firstn_seg by lia. reflexivity.
    - apply Nat.leb_gt in E.
      destruct (batch_spec (set_next s 0) b) as (s1 & Hs1 & Hbuf & Hnx & Hcu & Hinp & Hm1 & Hp1); auto.
      rewrite Hs1. cbn [bind]. cbn [set_next s_nsz] in *.
      destruct (IH s1 (need - (s_cur s - s_next s))%nat (acc ++ seg f p (s_cur s - s_next s))
                   (p + (s_cur s - s_next s))%nat) as (s' & Hf & HI').
      + unfold Inv. rewrite Hbuf, Hnx, Hcu, seg_length. repeat split; try lia; auto.
        exists (b + s_nsz s / 16)%nat. repeat split; [lia | exact Hinp |].
        rewrite Nat.sub_0_r. cbn [skipn]. f_equal. lia.
      + right. rewrite Hnx, Hcu. lia.
      + exists s'. split.
        * rewrite Hf, <- app_assoc, <- seg_app.
          assert (Hn' : (s_cur s - s_next s + (need - (s_cur s - s_next s)) = need)%nat) by lia.
          rewrite Hn'. reflexivity.
        * replace (p + need)%nat with (p + (s_cur s - s_next s) + (need - (s_cur s - s_next s)))%nat by lia.
          exact HI'.
  Qed.

  Definition SI (s : session) (p : nat) : Prop := Inv s p.

  Theorem sess_bytes_stream s p n :
    Inv s p -> exists s', sess_bytes aes key s n = Ok (seg f p n, s') /\ Inv s' (p + n).
  Proof.
    intros HI. destruct (fill_spec (n + 2) s n [] p HI) as (s' & H & HI'); [lia|].
    exists s'. split; [exact H | exact HI'].
  Qed.

  Lemma sess_bytes_rel s p n : Inv s p -> rrel Inv (sess_bytes aes key s n) (pure_bytes f p n).
  Proof.
    intros HI. destruct (sess_bytes_stream s p n HI) as (s' & -> & HI'). cbn. auto.
  Qed.

  Lemma sess_number_rel s p need : Inv s p -> rrel Inv (sess_number aes key s need) (pure_number f p need).
  Proof.
    intros HI. unfold sess_number, pure_number.
    destruct ((1 <=? need)%nat && (need <=? 8)%nat) eqn:En; [|exact I].
    apply andb_true_iff in En as [En1 En2]. apply Nat.leb_le in En1, En2.
    pose proof HI as (Hc & Hn & Hm & Hp & b & Hb & Hin & Hsk).
    unfold sess_number_const.
    replace (s_cur s <? s_next s)%nat with false by (symmetry; apply Nat.ltb_ge; lia).
    set (av := (s_cur s - s_next s)%nat) in *.
    rewrite slice_ok by lia. cbn [bind].
    replace (s_next s + Nat.min av need - s_next s)%nat with (Nat.min av need) by lia.
    assert (Hp1 : firstn (Nat.min av need) (skipn (s_next s) (s_buf s)) = seg f p (Nat.min av need)).
    { rewrite Hsk. apply firstn_seg. lia. }
    rewrite Hp1.
    destruct (Nat.min av need =? need)%nat eqn:E.
    - apply Nat.eqb_eq in E. rewrite E. cbn. split.
      + apply number_value; [apply seg_Forall, stream_byte_range | apply seg_length | lia].
      + apply Inv_advance; [exact HI | fold av; lia].
    - apply Nat.eqb_neq in E. assert (Hav : (av < need)%nat) by lia.
      replace (Nat.min av need) with av by lia.
      destruct (batch_spec s b) as (s1 & Hs1 & Hbuf & Hnx & Hcu & Hinp & Hm1 & Hp1'); auto.
      rewrite Hs1. cbn [bind].
      assert (H16 : (16 <= s_nsz s)%nat) by lia.
      rewrite slice_ok by (rewrite Hbuf, seg_length; lia). cbn [bind skipn].
      rewrite Nat.sub_0_r, Hbuf, firstn_seg by lia.
      replace (16 * b)%nat with (p + av)%nat by lia.
      cbn. split.
      + rewrite app_assoc, <- seg_app. replace (av + (need - av))%nat with need by lia.
        apply number_value; [apply seg_Forall, stream_byte_range | apply seg_length | lia].
      + unfold Inv, set_next. cbn [s_cur s_buf s_next s_nsz s_input].
        rewrite Hbuf, Hcu, seg_length. repeat split; try lia; auto.
        exists (b + s_nsz s / 16)%nat. repeat split; [lia | exact Hinp |].
        rewrite skipn_seg by lia. f_equal. lia.
  Qed.
End Stream.

(* Proofs about Model/Sort.v (C18), part 5: the evaluator-level functions on flattened arrays
   are the row-level permutation algebra (no failure is hidden by the row-level defaults), and
   the Sort operation gathers every column with the one stable sorting permutation. *)
From Coq Require Import Permutation Sorted.
From CC Require Import Base.Prelude Base.Scalar Model.Sort Proofs.SortProofs Proofs.PermProofs.

Lemma firstn_app_exact {A} k (l1 l2 : list A) : length l1 = k -> firstn k (l1 ++ l2) = l1.
Proof. intros <-. rewrite firstn_app, Nat.sub_diag, firstn_all. simpl. apply app_nil_r. Qed.
Lemma skipn_app_exact {A} k (l1 l2 : list A) : length l1 = k -> skipn k (l1 ++ l2) = l2.
Proof. intros <-. rewrite skipn_app, Nat.sub_diag, skipn_all. reflexivity. Qed.

Lemma skipn_plus {A} a b (l : list A) : skipn a (skipn b l) = skipn (b + a) l.
Proof.
  revert l; induction b as [|b IH]; intros l; simpl; auto.
  destruct l; [now rewrite skipn_nil|apply IH].
Qed.

Lemma concat_length_const {A} (rows : list (list A)) k :
  Forall (fun r => length r = k) rows -> length (concat rows) = (length rows * k)%nat.
Proof. induction 1 as [|r rows Hr _ IH]; simpl; auto. rewrite app_length, IH, Hr. lia. Qed.

(* slice.chunks(k) of a row-major array gives the rows back *)
Lemma chunks_concat {A} (rows : list (list A)) k fuel :
  (0 < k)%nat -> Forall (fun r => length r = k) rows -> (length rows <= fuel)%nat ->
  chunks fuel k (concat rows) = rows.
Proof.
  intros Hk Hr. revert fuel. induction Hr as [|r rows Hr Hrs IH]; intros fuel Hf.
  - destruct fuel; reflexivity.
  - destruct fuel as [|fuel]; [simpl in Hf; lia|]. cbn [concat chunks].
    destruct (r ++ concat rows) eqn:E.
    { destruct r; [simpl in Hr; lia|discriminate]. }
    rewrite <- E. rewrite firstn_app_exact, skipn_app_exact by auto. f_equal.
    apply IH. simpl in Hf. lia.
Qed.

(* get_sorting_permutation on the flattened key column [n, b] is the row-level sorting
   permutation: neither panic is reachable for n, b > 0 *)
Theorem get_sorting_permutation_rows (rows : list (list Z)) b :
  (0 < b)%nat -> (0 < length rows)%nat -> Forall (fun r => length r = b) rows ->
  get_sorting_permutation (concat rows) (Z.of_nat (length rows)) = Ok (sorting_permutation rows).
Proof.
  intros Hb Hn Hr. unfold get_sorting_permutation.
  replace (Z.of_nat (length rows) =? 0) with false by (symmetry; apply Z.eqb_neq; lia).
  rewrite (concat_length_const rows b Hr).
  replace (Z.to_nat (Z.of_nat (length rows * b) / Z.of_nat (length rows))) with b.
  2:{ rewrite Nat2Z.inj_mul, Z.mul_comm, Z.div_mul by lia. now rewrite Nat2Z.id. }
  replace (b =? 0)%nat with false by (symmetry; apply Nat.eqb_neq; lia).
  rewrite chunks_concat; auto; [|nia]. now rewrite Nat2Z.id.
Qed.

Lemma mapM_ok {A B} (f : A -> result B) (g : A -> B) l :
  (forall x, In x l -> f x = Ok (g x)) -> mapM f l = Ok (map g l).
Proof.
  induction l as [|x l IH]; intros H; simpl; auto.
  rewrite (H x) by (left; auto). cbn [bind]. rewrite IH by (intros; apply H; right; auto).
  reflexivity.
Qed.

Lemma nth_concat_slice {A} (rows : list (list A)) k i :
  Forall (fun r => length r = k) rows -> (i < length rows)%nat ->
  firstn k (skipn (i * k) (concat rows)) = nth i rows [].
Proof.
  intros Hr. revert i. induction Hr as [|r rows Hr Hrs IH]; intros i Hi; simpl in *; [lia|].
  destruct i as [|i].
  - simpl. apply firstn_app_exact; auto.
  - replace (S i * k)%nat with (k + i * k)%nat by lia.
    rewrite <- skipn_plus. rewrite skipn_app_exact by auto. apply IH. lia.
Qed.

(* evaluate_gather along axis 0 with in-range indices is the row-level gather *)
Theorem gather_rows_ok (rows : list (list Z)) (sh : list Z) (p : list nat) :
  Forall (fun r => Z.of_nat (length r) = prodZ sh) rows ->
  Forall (fun i => (i < length rows)%nat) p ->
  evaluate_gather (concat rows) (Z.of_nat (length rows) :: sh) (map Z.of_nat p) 0
  = Ok (concat (apply_perm [] p rows)).
Proof.
  intros Hr Hp. unfold evaluate_gather. cbn [length Nat.ltb Nat.leb firstn skipn].
  change (prodZ []) with 1. change (Z.to_nat 1) with 1%nat. cbn [seq map mapM nth_error].
  set (k := Z.to_nat (prodZ sh)).
  assert (Hr' : Forall (fun r => length r = k) rows).
  { eapply Forall_impl; [|exact Hr]. intros r E. unfold k. rewrite <- E. now rewrite Nat2Z.id. }
  rewrite (mapM_ok _ (fun z => nth (Z.to_nat z) rows [])).
  - cbn [bind concat]. rewrite app_nil_r. unfold apply_perm. rewrite map_map. do 2 f_equal.
    apply map_ext. intros i. now rewrite Nat2Z.id.
  - intros z Hz. apply in_map_iff in Hz as (i & <- & Hi).
    rewrite Forall_forall in Hp. specialize (Hp i Hi).
    replace (Z.of_nat (length rows) <=? Z.of_nat i) with false by (symmetry; apply Z.leb_gt; lia).
    rewrite Z.mul_0_l, Z.add_0_l.
    assert (Ek : prodZ sh = Z.of_nat k).
    { destruct rows as [|r0 rows0]; [simpl in Hp; lia|]. inversion Hr as [|? ? E _]; subst.
      unfold k. rewrite <- E. now rewrite Nat2Z.id. }
    rewrite Ek, <- Nat2Z.inj_mul, !Nat2Z.id. unfold slice.
    rewrite (concat_length_const rows k Hr').
    replace (i * k + k <=? length rows * k)%nat with true by (symmetry; apply Nat.leb_le; nia).
    f_equal. apply nth_concat_slice; auto.
Qed.

(* ------------------------------------------------------------------ the Sort operation *)
(* a table given by rows: name, row shape, rows; its evaluator form has shape n :: row shape *)
Definition rcolumn : Type := string * list Z * list (list Z).
Definition rc_rows (c : rcolumn) := snd c.
Definition col_of (n : nat) (c : rcolumn) : column :=
  (fst (fst c), Z.of_nat n :: snd (fst c), concat (snd c)).
Definition rc_ok (n : nat) (c : rcolumn) : Prop :=
  length (snd c) = n /\ Forall (fun r => Z.of_nat (length r) = prodZ (snd (fst c))) (snd c).

Lemma find_map {A B} (f : B -> bool) (g : A -> B) l :
  find f (map g l) = option_map g (find (fun x => f (g x)) l).
Proof. induction l as [|a l IH]; simpl; auto. destruct (f (g a)); auto. Qed.

Lemma mapM_map {A B C} (f : B -> result C) (g : A -> B) l :
  mapM f (map g l) = mapM (fun x => f (g x)) l.
Proof. induction l as [|a l IH]; simpl; auto. now rewrite IH. Qed.

(* C18: Sort returns, for EVERY column, the rows gathered by the one stable sorting
   permutation of the key rows — no column is permuted differently, and the evaluator's
   error/panic paths are not reachable on a well-formed table *)
Theorem sort_op_spec key (tbl : list rcolumn) kname (keyrows : list (list Z)) b :
  find (fun c : rcolumn => String.eqb (fst (fst c)) key) tbl = Some (kname, [Z.of_nat b], keyrows) ->
  (0 < b)%nat -> (0 < length keyrows)%nat -> Forall (fun r => length r = b) keyrows ->
  Forall (rc_ok (length keyrows)) tbl ->
  sort_op key (map (col_of (length keyrows)) tbl)
  = Ok (map (fun c => concat (apply_perm [] (sorting_permutation keyrows) (rc_rows c))) tbl).
Proof.
  intros Hfind Hb Hn Hk Htbl. unfold sort_op.
  rewrite find_map.
  change (find (fun x : rcolumn => String.eqb (col_name (col_of (length keyrows) x)) key) tbl)
    with (find (fun c : rcolumn => String.eqb (fst (fst c)) key) tbl).
  rewrite Hfind.
  cbn [option_map col_of col_shape col_entries fst snd].
  rewrite (get_sorting_permutation_rows keyrows b Hb Hn Hk). cbn [bind].
  rewrite mapM_map.
  apply mapM_ok. intros c Hc. rewrite Forall_forall in Htbl. destruct (Htbl c Hc) as [Ln Hr].
  unfold col_of, col_entries, col_shape, rc_rows. cbn [fst snd]. rewrite <- Ln.
  apply gather_rows_ok; auto.
  rewrite Ln, <- (sorting_permutation_length keyrows).
  apply is_perm_Forall. rewrite sorting_permutation_length. apply sorting_permutation_is_perm.
Qed.

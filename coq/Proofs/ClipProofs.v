(* Proofs about Model/Clip.v (C17): Clip2K clamps the two's complement value to [0, 2^k],
   for every width n and every k <= n - 2. *)
From CC Require Import Base.Prelude Model.Adder Model.Mux Model.Clip Proofs.AdderProofs Proofs.MuxProofs.

(* two's complement value of a bitstring *)
Definition sbval (x : bits) : Z :=
  if last x false then bval x - 2 ^ Z.of_nat (length x) else bval x.

Lemma bval_app a b : bval (a ++ b) = bval a + 2 ^ Z.of_nat (length a) * bval b.
Proof.
  induction a as [|x a IH]; cbn [app bval length].
  - change (2 ^ Z.of_nat 0) with 1. lia.
  - rewrite IH, Nat2Z.inj_succ, Z.pow_succ_r by lia. lia.
Qed.

Lemma bval_repeat_false m : bval (repeat false m) = 0.
Proof. induction m as [|m IH]; cbn [repeat bval Z.b2z]; lia. Qed.

Lemma bval_msb x : x <> [] ->
  bval x = bval (removelast x) + 2 ^ Z.of_nat (length x - 1) * Z.b2z (last x false) /\
  0 <= bval (removelast x) < 2 ^ Z.of_nat (length x - 1).
Proof.
  intros Hne. pose proof (app_removelast_last false Hne) as E.
  assert (length (removelast x) = length x - 1)%nat as Hl.
  { rewrite E at 2. rewrite app_length. cbn [length]. lia. }
  split.
  - rewrite E at 1. rewrite bval_app, Hl. cbn [bval]. lia.
  - rewrite <- Hl. apply bval_range.
Qed.

Lemma last_app_nonempty {A} (l t : list A) d : t <> [] -> last (l ++ t) d = last t d.
Proof.
  intros Ht. induction l as [|x l IH]; [reflexivity|].
  cbn [app]. destruct (l ++ t) eqn:E.
  - destruct l; [cbn in E; contradiction | discriminate].
  - rewrite <- IH. reflexivity.
Qed.

Lemma nth_error_last {A} (x : list A) d : x <> [] -> nth_error x (length x - 1) = Some (last x d).
Proof.
  intros Hne. pose proof (app_removelast_last d Hne) as E.
  assert (length (removelast x) = length x - 1)%nat as Hl.
  { rewrite E at 2. rewrite app_length. cbn [length]. lia. }
  rewrite E at 1. rewrite <- Hl, nth_error_app2, Nat.sub_diag by lia. reflexivity.
Qed.

Lemma or_bit_orb a b : or_bit a b = orb a b.
Proof. destruct a, b; reflexivity. Qed.

(* the OR-reduction of a bitstring is the test "value non-zero" *)
Lemma fold_or_bit l : forall acc, fold_left or_bit l acc = orb acc (negb (bval l =? 0)).
Proof.
  induction l as [|b r IH]; intros acc; cbn [fold_left bval].
  - change (0 =? 0) with true. cbn [negb]. now rewrite orb_false_r.
  - rewrite IH, or_bit_orb. pose proof (bval_range r) as R.
    destruct b; cbn [Z.b2z].
    + replace (1 + 2 * bval r =? 0) with false by (symmetry; apply Z.eqb_neq; lia).
      cbn [negb]. now rewrite !orb_true_r.
    + rewrite orb_false_r. f_equal. f_equal.
      destruct (bval r =? 0) eqn:E; [apply Z.eqb_eq in E | apply Z.eqb_neq in E];
        symmetry; [apply Z.eqb_eq | apply Z.eqb_neq]; lia.
Qed.

Lemma mux_bits_true c1 c0 : length c1 = length c0 -> mux_bits true c1 c0 = c1.
Proof.
  revert c0; induction c1 as [|a c1 IH]; intros [|b c0] H; try discriminate; [reflexivity|].
  unfold mux_bits in *. cbn [map2]. rewrite mux_b_spec. f_equal. apply IH. cbn [length] in H. lia.
Qed.
Lemma mux_bits_false c1 c0 : length c1 = length c0 -> mux_bits false c1 c0 = c0.
Proof.
  revert c0; induction c1 as [|a c1 IH]; intros [|b c0] H; try discriminate; [reflexivity|].
  unfold mux_bits in *. cbn [map2]. rewrite mux_b_spec. f_equal. apply IH. cbn [length] in H. lia.
Qed.
Lemma mux_bits_spec f c1 c0 : length c1 = length c0 -> mux_bits f c1 c0 = if f then c1 else c0.
Proof. destruct f; [apply mux_bits_true | apply mux_bits_false]. Qed.

(* clamp of an integer to [0, 2^k] *)
Definition clamp2k (k : nat) (v : Z) : Z :=
  if v <? 0 then 0 else if 2 ^ Z.of_nat k <=? v then 2 ^ Z.of_nat k else v.

Theorem clip_spec k x : (k + 2 <= length x)%nat ->
  exists r, clip2k k x = Ok r /\ length r = length x /\
            bval r = clamp2k k (sbval x) /\ sbval r = clamp2k k (sbval x).
Proof.
  intros Hk. set (n := length x) in *.
  assert (x <> []) as Hne by (intros ->; cbn in n; lia).
  unfold clip2k. fold n.
  replace (n - 1 <=? k)%nat with false by (symmetry; apply Nat.leb_gt; lia).
  change (nth_error x (n - 1)) with (nth_error x (length x - 1)).
  rewrite (nth_error_last x false Hne).
  set (s := last x false).
  set (t := skipn k x).
  assert (x = firstn k x ++ t) as Ex by (symmetry; apply firstn_skipn).
  assert (length (firstn k x) = k) as Hlf by (rewrite firstn_length; lia).
  assert (length t = n - k)%nat as Hlt by (unfold t; rewrite skipn_length; reflexivity).
  assert (t <> []) as Htne by (intros E; rewrite E in Hlt; cbn in Hlt; lia).
  assert (last t false = s) as Hs.
  { unfold s. rewrite Ex at 1. symmetry. apply last_app_nonempty. exact Htne. }
  rewrite fold_or_bit. cbn [orb].
  set (clipped := repeat false k ++ [mux_b s false true] ++ repeat false (n - k - 1)).
  assert (length clipped = n) as Hlc.
  { unfold clipped. rewrite !app_length, !repeat_length. cbn [length]. lia. }
  assert (bval clipped = if s then 0 else 2 ^ Z.of_nat k) as Hvc.
  { unfold clipped. rewrite !bval_app, !repeat_length, !bval_repeat_false. cbn [length bval].
    rewrite mux_b_spec. destruct s; cbn [Z.b2z]; lia. }
  assert (last clipped false = false) as Hlastc.
  { unfold clipped. rewrite app_assoc.
    replace (n - k - 1)%nat with (S (n - k - 2)) by lia.
    rewrite last_app_nonempty by discriminate.
    generalize (n - k - 2)%nat. intros m. induction m as [|m IH]; [reflexivity|].
    cbn [repeat] in *. exact IH. }
  (* arithmetic facts *)
  pose proof (bval_range (firstn k x)) as Rlo. rewrite Hlf in Rlo.
  pose proof (bval_range t) as Rt.
  assert (bval x = bval (firstn k x) + 2 ^ Z.of_nat k * bval t) as Ev.
  { rewrite Ex at 1. rewrite bval_app, Hlf. reflexivity. }
  destruct (bval_msb x Hne) as [Em Rm]. fold n in Em, Rm. fold s in Em.
  destruct (bval_msb t Htne) as [Emt Rmt]. rewrite Hs in Emt.
  assert (0 < 2 ^ Z.of_nat k) as Pk by (apply Z.pow_pos_nonneg; lia).
  assert (0 < 2 ^ Z.of_nat (length t - 1)) as Pt by (apply Z.pow_pos_nonneg; lia).
  assert (2 ^ Z.of_nat n = 2 * 2 ^ Z.of_nat (n - 1)) as Pn.
  { replace (Z.of_nat n) with (Z.succ (Z.of_nat (n - 1))) by lia. apply Z.pow_succ_r. lia. }
  assert (2 ^ Z.of_nat (n - 1) = 2 ^ Z.of_nat k * 2 ^ Z.of_nat (n - 1 - k)) as Pnk.
  { rewrite <- Z.pow_add_r by lia. f_equal. lia. }
  assert (2 <= 2 ^ Z.of_nat (n - 1 - k)) as P2.
  { replace (Z.of_nat (n - 1 - k)) with (Z.succ (Z.of_nat (n - 2 - k))) by lia.
    rewrite Z.pow_succ_r by lia.
    assert (0 < 2 ^ Z.of_nat (n - 2 - k)) by (apply Z.pow_pos_nonneg; lia). lia. }
  assert (sbval x = if s then bval x - 2 ^ Z.of_nat n else bval x) as Hsx by reflexivity.
  unfold clamp2k.
  destruct (bval t =? 0) eqn:E0; cbn [negb].
  - (* no top bit set: the input is returned *)
    apply Z.eqb_eq in E0.
    assert (s = false) as Es.
    { destruct s; [|reflexivity]. cbn [Z.b2z] in Emt. lia. }
    exists x. rewrite mux_bits_false by lia. rewrite Es in *. cbn [Z.b2z] in *.
    rewrite Hsx.
    replace (bval x <? 0) with false by (symmetry; apply Z.ltb_ge; lia).
    replace (2 ^ Z.of_nat k <=? bval x) with false by (symmetry; apply Z.leb_gt; lia).
    repeat split; reflexivity.
  - (* some top bit set: 0 for a negative input, 2^k otherwise *)
    apply Z.eqb_neq in E0.
    exists clipped. rewrite mux_bits_true by lia.
    split; [reflexivity|]. split; [exact Hlc|].
    assert (sbval clipped = bval clipped) as -> by (unfold sbval; rewrite Hlastc; reflexivity).
    rewrite Hvc, Hsx. destruct s; cbn [Z.b2z] in *.
    + replace (bval x - 2 ^ Z.of_nat n <? 0) with true by (symmetry; apply Z.ltb_lt; nia).
      split; reflexivity.
    + replace (bval x <? 0) with false by (symmetry; apply Z.ltb_ge; lia).
      replace (2 ^ Z.of_nat k <=? bval x) with true by (symmetry; apply Z.leb_le; nia).
      split; reflexivity.
Qed.

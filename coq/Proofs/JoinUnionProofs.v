(* C19, union join: the mirrored algorithm (Model/JoinImpl.v get_union_columns) returns the
   specified table (Model/JoinSpec.v, JUnion).

   The statement proved here is stronger than the C19 one in two ways, both needed later by the
   full join (Proofs/JoinFullProofs.v), which calls the union join on a = first table and
   b = left_join(second, first):
   * no uniqueness of row keys: the union join only asks the key hash map of the second table
     whether a key is present (`contains_key`), never which row carries it;
   * no [wj_distinct]: the second table may have non-key columns named like columns of the first
     (`same_headers` of join.rs:296); such columns are not result columns of the second table,
     the algorithm and the specification both take the first table's column under that name. *)
From CC Require Import Base.Prelude Model.JoinTable Model.JoinImpl Model.JoinSpec Proofs.JoinProofs.

(* ----------------------------------------------------- the key hash map as a set (contains_key) *)
Lemma find_rev_none {A} (f : A -> bool) l : find f (rev l) = None <-> find f l = None.
Proof.
  split; intros H.
  - destruct (find f l) as [x|] eqn:E; [|reflexivity]. apply find_some in E. destruct E as (I & F).
    pose proof (find_none _ _ H x (proj1 (in_rev _ _) I)). congruence.
  - destruct (find f (rev l)) as [x|] eqn:E; [|reflexivity]. apply find_some in E. destruct E as (I & F).
    apply in_rev in I. pose proof (find_none _ _ H x I). congruence.
Qed.

Lemma hashmap_contains masked t khs :
  wf_table masked t -> (forall h, In h khs -> In h (names t) /\ is_null h = false) ->
  exists hm, get_hashmap_from_key_columns (extract_columns t masked) khs = Ok hm /\
             forall k, hm_get k hm = None <-> find_row masked t khs k = None.
Proof.
  intros WF Hk. unfold get_hashmap_from_key_columns. rewrite (ex_null_len masked t WF).
  rewrite (hm_fold masked t WF khs Hk) by (intros i Hi; apply in_seq in Hi; lia).
  eexists; split; [reflexivity|]. intros k. rewrite hm_get_fold. cbn [hm_get]. unfold find_row.
  destruct (find _ (rev _)) eqn:E.
  - split; [discriminate|]. intros H. apply find_rev_none in H. congruence.
  - split; [|reflexivity]. intros _. now apply find_rev_none.
Qed.

Lemma mem_keys_lookup h (keys : keymap) : mem h (map fst keys) = true ->
  exists h1, lookup h keys = Some h1 /\ In (h, h1) keys.
Proof.
  intros H. apply mem_In in H. destruct (names_lookup _ _ H) as (h1 & Hl).
  exists h1. split; [exact Hl|]. now apply lookup_In.
Qed.

(* ------------------------------------------------------------------------------- the union join *)
Section Union.
Variables (masked : bool) (a b : table) (keys : keymap).
Hypothesis WA : wf_table masked a.
Hypothesis WB : wf_table masked b.
Hypothesis WK : Forall (fun k => In (fst k) (names a) /\ In (snd k) (names b) /\
                                 is_null (fst k) = false /\ is_null (snd k) = false) keys.
Let kh0 := map fst keys.
Let kh1 := map snd keys.
Let res := result_headers a b keys.
Let set0 := extract_columns a masked.
Let set1 := extract_columns b masked.
Let nonkey1 := filter (fun h => negb (is_null h) && negb (mem h kh1)) (names b).
Let same := filter (fun h => mem h nonkey1) (names a).
Let unique1 := filter (fun h => negb (mem h same)) nonkey1.

Lemma uK0 : forall h, In h kh0 -> In h (names a) /\ is_null h = false.
Proof.
  intros h Hin. apply in_map_iff in Hin. destruct Hin as (k & <- & Hk).
  rewrite Forall_forall in WK. destruct (WK k Hk). tauto.
Qed.
Lemma uK1 : forall h, In h kh1 -> In h (names b) /\ is_null h = false.
Proof.
  intros h Hin. apply in_map_iff in Hin. destruct Hin as (k & <- & Hk).
  rewrite Forall_forall in WK. destruct (WK k Hk). tauto.
Qed.
Lemma u_null_in_a : In null_header (names a).
Proof. destruct (wf_null _ _ WA) as (c & Hc & _). eapply lookup_names; eauto. Qed.

Lemma u_nonkey1_spec h : In h nonkey1 <-> In h (names b) /\ is_null h = false /\ ~ In h kh1.
Proof.
  unfold nonkey1. rewrite filter_In, andb_true_iff, !negb_true_iff, mem_false. tauto.
Qed.
Lemma u_unique1_spec h : In h unique1 <-> In h nonkey1 /\ ~ In h (names a).
Proof.
  unfold unique1, same. rewrite filter_In, negb_true_iff, mem_false, filter_In, mem_In. tauto.
Qed.
Lemma u_unique1_nodup : NoDup unique1.
Proof. apply NoDup_filter', NoDup_filter'. exact (wf_nodup _ _ WB). Qed.

Lemma u_names_res :
  names res = names a ++ filter (fun h => negb (mem h (names a)) && negb (mem h kh1)) (names b).
Proof.
  unfold res, result_headers. rewrite names_app, names_types_of. f_equal.
  exact (names_filter_types (fun h => negb (mem h (names a)) && negb (mem h (map snd keys))) b).
Qed.
Lemma u_in_res h : In h (names res) <-> In h (names a) \/ In h unique1.
Proof.
  rewrite u_names_res, in_app_iff, filter_In, andb_true_iff, !negb_true_iff, !mem_false.
  rewrite u_unique1_spec, u_nonkey1_spec. split.
  - intros [H|(Hb & Hna & Hk)]; [now left|]. right. repeat split; auto.
    destruct (is_null h) eqn:En; [|reflexivity]. apply is_null_true in En. subst h.
    exfalso. apply Hna. exact u_null_in_a.
  - intros [H|((Hb & _ & Hk) & Hna)]; [now left|]. right. auto.
Qed.
Lemma u_nodup_res : NoDup (names res).
Proof.
  rewrite u_names_res. apply NoDup_app_intro.
  - exact (wf_nodup _ _ WA).
  - apply NoDup_filter'. exact (wf_nodup _ _ WB).
  - intros x Ha Hf. apply filter_In in Hf. destruct Hf as (_ & Hf).
    apply andb_true_iff in Hf. destruct Hf as (Hf & _). apply negb_true_iff, mem_false in Hf. auto.
Qed.
Lemma u_lookup_res_a h c : lookup h a = Some c -> lookup h res = Some (c_rs c).
Proof. exact (lookup_res_a a b keys h c). Qed.
Lemma u_lookup_res_b h : In h unique1 ->
  exists c, lookup h b = Some c /\ lookup h res = Some (c_rs c).
Proof.
  intros Hu. apply u_unique1_spec in Hu. destruct Hu as (Hn & Hna).
  apply u_nonkey1_spec in Hn. destruct Hn as (Hb & Hnull & Hk).
  destruct (names_lookup _ _ Hb) as (c & Hc). exists c. split; [exact Hc|].
  unfold res, result_headers. rewrite lookup_app, lookup_types_of.
  apply lookup_None in Hna. rewrite Hna. cbn [option_map].
  rewrite (lookup_filter (fun h => negb (mem h (names a)) && negb (mem h (map snd keys)))).
  - now rewrite lookup_types_of, Hc.
  - apply andb_true_iff. split; apply negb_true_iff, mem_false; auto. now apply lookup_None.
Qed.

(* ---- first loop: a row of the first table without match *)
Lemma u_emit_a rc rows i :
  inv masked res rc rows -> (i < nrows a)%nat -> live a i = true ->
  exists rc2, (let* rc1 := copy_all set0 i (names a) rc in zero_all unique1 rc1) = Ok rc2 /\
              inv masked res rc2 (rows ++ [rowdesc_of masked a b keys (PA i None)]).
Proof.
  intros Hi Hlt Hlive.
  destruct (copy_all_pinv masked res set0 i rows (rowdesc_of masked a b keys (PA i None))
              (names a) rc []) as (rc1 & -> & Hp1).
  - destruct Hi as (H1 & H2 & H3). repeat split; auto.
  - exact (wf_nodup _ _ WA).
  - reflexivity.
  - reflexivity.
  - intros h Hin. destruct (is_null h) eqn:En.
    + destruct (ex_null masked a WA i Hlt) as (Hn & Hb). eexists; split; [exact Hn|].
      cbn. unfold live in Hlive. destruct Hb as [E|E]; rewrite E in *; [discriminate|reflexivity].
    + destruct (names_lookup _ _ Hin) as (c & Hc). exists (c_rs c). split; [now apply u_lookup_res_a|].
      cbn. replace (mem h (names a)) with true by (symmetry; now apply mem_In).
      now apply ex_src_entry.
  - cbn [bind].
    destruct (zero_all_pinv masked res rows (rowdesc_of masked a b keys (PA i None)) unique1 rc1
                (names a ++ []) Hp1) as (rc2 & -> & Hp2).
    + exact u_unique1_nodup.
    + intros h Hu. rewrite app_nil_r. apply mem_false. apply u_unique1_spec in Hu. tauto.
    + intros h Hu. destruct (u_lookup_res_b h Hu) as (c & _ & Hr).
      apply u_unique1_spec in Hu. destruct Hu as (Hn & Hna). apply u_nonkey1_spec in Hn.
      split; [tauto|]. exists (c_rs c). split; [exact Hr|].
      cbn. replace (mem h (names a)) with false by (symmetry; now apply mem_false). reflexivity.
    + eexists; split; [reflexivity|].
      apply (pinv_close masked res rc2 rows _ _ Hp2).
      * intros h Hin. apply u_in_res in Hin. rewrite app_nil_r. apply mem_In, in_app_iff. tauto.
      * apply mem_In, in_app_iff. right. rewrite app_nil_r. exact u_null_in_a.
Qed.

Definition ubody1 (hm1 : keyhash) (rc : cmap) (i : nat) : result cmap :=
  let* nb := idx (cm_null set0) i in
  if nb =? 0 then Ok (append_zero_row rc) else
  let* e := row_has_empty_entries set0 i kh0 in
  if e then
    let* rc := copy_all set0 i (names a) rc in
    zero_all unique1 rc
  else
  let* k := get_flattened_row set0 i kh0 in
  match hm_get k hm1 with
  | Some _ => Ok (append_zero_row rc)
  | None =>
      let* rc := copy_all set0 i (names a) rc in
      zero_all unique1 rc
  end.

Definition uprov1 (i : nat) : prov :=
  if live a i
  then match match_of masked a b kh0 kh1 i with Some _ => PZero | None => PA i None end
  else PZero.

Lemma union_step1 hm1 rc rows i :
  (forall k, hm_get k hm1 = None <-> find_row masked b kh1 k = None) ->
  (i < nrows a)%nat -> inv masked res rc rows ->
  exists rc', ubody1 hm1 rc i = Ok rc' /\
              inv masked res rc' (rows ++ [rowdesc_of masked a b keys (uprov1 i)]).
Proof.
  intros Hhm Hlt Hi. unfold ubody1, uprov1.
  destruct (ex_null masked a WA i Hlt) as (Hnb & _). fold set0 in Hnb. rewrite Hnb. cbn [bind].
  unfold live at 1. destruct (null_bit a i =? 0) eqn:E0; cbn [negb].
  - eexists; split; [reflexivity|]. now apply append_zero_row_inv.
  - assert (Hlive : live a i = true) by (unfold live; now rewrite E0).
    pose proof (ex_empty masked a WA kh0 i uK0 Hlt) as He. fold set0 in He. rewrite He. cbn [bind].
    unfold match_of. destruct (key_live masked a kh0 i) eqn:Ekl; cbn [negb].
    + pose proof (ex_flat masked a WA kh0 i uK0 Hlt) as Hf. fold set0 in Hf. rewrite Hf. cbn [bind].
      destruct (hm_get (row_key a kh0 i) hm1) eqn:Eh;
        destruct (find_row masked b kh1 (row_key a kh0 i)) eqn:Ef.
      * eexists; split; [reflexivity|]. now apply append_zero_row_inv.
      * apply Hhm in Ef. congruence.
      * apply Hhm in Eh. congruence.
      * now apply u_emit_a.
    + now apply u_emit_a.
Qed.

(* ---- second loop: a row of the second table, one result header at a time *)
Definition ucell (j : nat) (rc : cmap) (h : string) : result cmap :=
  if is_null h then Ok (mkcm (cm_null rc ++ [1]) (cm_masked rc) (cm_cols rc))
  else if mem h kh0 then
    match lookup h keys with
    | Some h1 => copy_entry_from_column rc h h1 set1 j
    | None => Panic
    end
  else if mem h nonkey1 then copy_entry_from_column rc h h set1 j
  else append_zero_entry rc h.

Lemma union_cell j rows rc dn h :
  (j < nrows b)%nat ->
  pinv masked res rc rows (rowdesc_of masked a b keys (PB j None)) dn ->
  mem h dn = false -> In h (names res) ->
  exists rc1, ucell j rc h = Ok rc1 /\
              pinv masked res rc1 rows (rowdesc_of masked a b keys (PB j None)) (h :: dn).
Proof.
  intros Hj Hp Hdn Hin. destruct (names_lookup _ _ Hin) as (rs & Hres). unfold ucell.
  destruct (is_null h) eqn:En.
  - apply is_null_true in En. subst h. eexists; split; [reflexivity|]. now apply push_null_pinv.
  - destruct (mem h kh0) eqn:Ek.
    + destruct (mem_keys_lookup h keys Ek) as (h1 & Hl & Hin1). rewrite Hl.
      rewrite Forall_forall in WK. destruct (WK _ Hin1) as (_ & Hb1 & _ & Hn1). cbn [fst snd] in Hb1, Hn1.
      apply copy_entry_pinv with (rs := rs); auto.
      cbn [rowdesc_of snd cell]. rewrite Hl. now apply ex_src_entry.
    + assert (Hl : lookup h keys = None) by (apply lookup_None; now apply mem_false in Ek).
      destruct (mem h nonkey1) eqn:En1.
      * apply mem_In, u_nonkey1_spec in En1. destruct En1 as (Hb & _ & Hnk).
        apply copy_entry_pinv with (rs := rs); auto.
        cbn [rowdesc_of snd cell]. rewrite Hl.
        replace (mem h (names b)) with true by (symmetry; now apply mem_In).
        replace (mem h (map snd keys)) with false by (symmetry; now apply mem_false).
        cbn [andb negb]. now apply ex_src_entry.
      * apply append_zero_entry_pinv with (rs := rs); auto.
        cbn [rowdesc_of snd cell]. rewrite Hl.
        destruct (mem h (names b)) eqn:Eb; [|reflexivity].
        destruct (mem h (map snd keys)) eqn:Ek1; [reflexivity|]. exfalso.
        apply mem_false in En1. apply En1, u_nonkey1_spec.
        split; [now apply mem_In|]. split; [exact En|]. now apply mem_false.
Qed.

Lemma union_row j rows : (j < nrows b)%nat -> forall hs rc dn,
  pinv masked res rc rows (rowdesc_of masked a b keys (PB j None)) dn ->
  NoDup hs -> (forall h, In h hs -> mem h dn = false) -> (forall h, In h hs -> In h (names res)) ->
  exists rc', foldM (ucell j) hs rc = Ok rc' /\
              pinv masked res rc' rows (rowdesc_of masked a b keys (PB j None)) (hs ++ dn).
Proof.
  intros Hj. induction hs as [|h hs IH]; intros rc dn Hp ND Hdn Hres.
  - cbn. eauto.
  - inversion ND as [|? ? Hnin ND']; subst. cbn [foldM].
    destruct (union_cell j rows rc dn h Hj Hp (Hdn h (or_introl eq_refl)) (Hres h (or_introl eq_refl)))
      as (rc1 & -> & Hp1). cbn [bind].
    destruct (IH rc1 (h :: dn) Hp1 ND') as (rc' & Hf & Hp').
    + intros h' Hin. rewrite mem_cons, (Hdn h') by now right.
      destruct (String.eqb h' h) eqn:E; [|reflexivity]. apply String.eqb_eq in E. now subst.
    + intros h' Hin. apply Hres. now right.
    + exists rc'. split; [exact Hf|]. eapply pinv_ext; [exact Hp'|].
      intros x. cbn [app]. rewrite mem_app, !mem_cons, mem_app.
      destruct (String.eqb x h), (mem x hs), (mem x dn); reflexivity.
Qed.

Definition ubody2 (rc : cmap) (j : nat) : result cmap :=
  let* nb := idx (cm_null set1) j in
  if nb =? 0 then Ok (append_zero_row rc) else foldM (ucell j) (names res) rc.

Definition uprov2 (j : nat) : prov := if live b j then PB j None else PZero.

Lemma union_step2 rc rows j :
  (j < nrows b)%nat -> inv masked res rc rows ->
  exists rc', ubody2 rc j = Ok rc' /\
              inv masked res rc' (rows ++ [rowdesc_of masked a b keys (uprov2 j)]).
Proof.
  intros Hj Hi. unfold ubody2, uprov2.
  destruct (ex_null masked b WB j Hj) as (Hnb & _). fold set1 in Hnb. rewrite Hnb. cbn [bind].
  unfold live. destruct (null_bit b j =? 0) eqn:E0; cbn [negb].
  - eexists; split; [reflexivity|]. now apply append_zero_row_inv.
  - destruct (union_row j rows Hj (names res) rc []) as (rc' & -> & Hp').
    + destruct Hi as (H1 & H2 & H3). repeat split; auto.
    + exact u_nodup_res.
    + reflexivity.
    + auto.
    + eexists; split; [reflexivity|]. apply (pinv_close masked res rc' rows _ _ Hp').
      * intros h Hin. rewrite app_nil_r. now apply mem_In.
      * rewrite app_nil_r. apply mem_In, u_in_res. left. exact u_null_in_a.
Qed.

(* ---- the whole join *)
Lemma union_unfold :
  join_impl JUnion masked a b keys
  = let* hm := get_hashmap_from_key_columns set1 kh1 in
    let* rc :=
      (let* rc := foldM (ubody1 hm) (seq 0 (get_num_rows set0))
                        (init_result_columns masked res) in
       foldM ubody2 (seq 0 (get_num_rows set1)) rc) in
    to_value rc res.
Proof. reflexivity. Qed.

Lemma u_hash : exists hm, get_hashmap_from_key_columns set1 kh1 = Ok hm /\
                          forall k, hm_get k hm = None <-> find_row masked b kh1 k = None.
Proof. exact (hashmap_contains masked b kh1 WB uK1). Qed.
Lemma u_len0 : get_num_rows set0 = nrows a.
Proof. exact (ex_null_len masked a WA). Qed.
Lemma u_len1 : get_num_rows set1 = nrows b.
Proof. exact (ex_null_len masked b WB). Qed.

Lemma union_provs :
  provs masked JUnion a b keys = map uprov1 (seq 0 (nrows a)) ++ map uprov2 (seq 0 (nrows b)).
Proof. reflexivity. Qed.

Theorem union_impl_spec_gen :
  join_impl JUnion masked a b keys = Ok (join_spec masked JUnion a b keys).
Proof.
  rewrite union_unfold. destruct u_hash as (hm & -> & Hhm). cbn [bind].
  rewrite u_len0, u_len1.
  destruct (foldM_rows masked res (ubody1 hm) (fun i => rowdesc_of masked a b keys (uprov1 i))
              (seq 0 (nrows a)) _ [] (init_inv masked res)) as (rc1 & -> & Hinv1).
  { intros rc rows i Hin Hi. apply in_seq in Hin. apply union_step1; auto. lia. }
  cbn [bind app] in *.
  destruct (foldM_rows masked res ubody2 (fun j => rowdesc_of masked a b keys (uprov2 j))
              (seq 0 (nrows b)) rc1 _ Hinv1) as (rc2 & -> & Hinv2).
  { intros rc rows j Hin Hi. apply in_seq in Hin. apply union_step2; auto. lia. }
  cbn [bind]. rewrite (to_value_inv masked res rc2 _ Hinv2 u_nodup_res). f_equal.
  rewrite <- (map_map uprov1 (rowdesc_of masked a b keys)).
  rewrite <- (map_map uprov2 (rowdesc_of masked a b keys)).
  rewrite <- map_app, <- union_provs. unfold res. rewrite render_spec. reflexivity.
Qed.
End Union.

(* The union join of the C19 statement: no uniqueness hypothesis is needed. *)
Theorem union_impl_spec masked a b keys : wf_join masked a b keys ->
  join_impl JUnion masked a b keys = Ok (join_spec masked JUnion a b keys).
Proof.
  intros WJ. apply union_impl_spec_gen.
  - exact (wj_a _ _ _ _ WJ).
  - exact (wj_b _ _ _ _ WJ).
  - exact (wj_keys _ _ _ _ WJ).
Qed.

(* C01 deep model, proofs, part 3: the few facts about type inference the correctness proof needs:
   the share type of a compiled private node of the elementwise fragment is an array or a scalar
   (so that reshare takes the Scalar|Array branch of recursively_generate_node_shares and
   recursively_sum_shares). *)
From CC Require Import Base.Prelude Base.Scalar Base.Ty Base.Shape Graph.Value Graph.IR Graph.Eval Graph.Typing
  Model.RingEval Model.MpcCompile Model.MpcCompileSem Proofs.MpcCompileBase.

Lemma register_inv t r : register t = Ok r -> r = t.
Proof. unfold register. destruct (ty_valid t); intros H; inversion H; auto. Qed.

Lemma broadcast_pair_leaf t0 t1 t :
  is_leaf t0 = true -> is_leaf t1 = true -> broadcast_pair t0 t1 = Ok t -> is_leaf t = true.
Proof.
  unfold broadcast_pair. intros L0 L1.
  destruct (negb (scalar_eqb (st_of t0) (st_of t1))); [discriminate|].
  destruct (is_scalar t0); [intros H; inversion H; subst; exact L1|].
  destruct (is_scalar t1); [intros H; inversion H; subst; exact L0|].
  intros H. inv_bind H. inversion H; reflexivity.
Qed.

Lemma broadcastable_is_leaf t : broadcastable t = true -> is_leaf t = true.
Proof. destruct t; cbn; auto; discriminate. Qed.

Lemma broadcast2_leaf a b r : broadcast_arrays [a; b] = Ok r -> is_leaf r = true /\ is_leaf a = true /\ is_leaf b = true.
Proof.
  unfold broadcast_arrays. destruct (forallb broadcastable [a; b]) eqn:B; cbn [negb]; [|discriminate].
  cbn [forallb] in B. apply andb_true_iff in B as [Ba B]. apply andb_true_iff in B as [Bb _].
  apply broadcastable_is_leaf in Ba, Bb. cbn [fold_left bind]. intros H.
  split; [exact (broadcast_pair_leaf _ _ _ Ba Bb H) | auto].
Qed.

Definition is_arith (o : op) : bool := match o with OAdd | OSubtract | OMultiply => true | _ => false end.

Lemma infer_arith_leaf o a b r :
  is_arith o = true -> infer o [a; b] = Ok r -> is_leaf r = true /\ is_leaf a = true /\ is_leaf b = true.
Proof.
  intros Ha H. destruct o; try discriminate; unfold infer in H; cbn [arity] in H;
    change (zlen [a; b] =? 2) with true in H; cbv iota in H; unfold infer_op in H; cbn [nth] in H;
    inv_bind H; apply register_inv in H; subst; eapply broadcast2_leaf; eauto.
Qed.

Lemma infer_tget3 i t1 t2 t3 r :
  infer (OTupleGet i) [TTuple [t1; t2; t3]] = Ok r -> znth [t1; t2; t3] i = Ok r.
Proof.
  unfold infer; cbn [arity]. change (zlen [TTuple [t1; t2; t3]] =? 1) with true. cbv iota.
  unfold infer_op; cbn [nth]. destruct (zlen [t1; t2; t3] <=? i); [discriminate|].
  intros H. inv_bind H. apply register_inv in H. now subst.
Qed.

Lemma infer_ctuple ts r : infer OCreateTuple ts = Ok r -> r = TTuple ts.
Proof. unfold infer; cbn [arity]. unfold infer_op. apply register_inv. Qed.

Lemma infer_nop t r : infer ONOP [t] = Ok r -> r = t.
Proof.
  unfold infer; cbn [arity]. change (zlen [t] =? 1) with true. cbv iota. unfold infer_op; cbn [nth]. apply register_inv.
Qed.

Lemma infer_input t r : infer (OInput t) [] = Ok r -> r = t.
Proof.
  unfold infer; cbn [arity]. change (zlen (@nil ty) =? 0) with true. cbv iota. unfold infer_op.
  destruct (negb (ty_valid t)); [discriminate|]. apply register_inv.
Qed.

(* share-wise lifted unary operations keep arrays/scalars *)
Lemma infer_lin_leaf o t r : is_lin_op o = true -> infer o [t] = Ok r -> is_leaf r = true.
Proof.
  intros Hl H. destruct o; try discriminate; unfold infer in H; cbn [arity] in H;
    change (zlen [t] =? 1) with true in H; cbv iota in H; unfold infer_op in H; cbn [nth] in H.
  - (* Sum *)
    destruct (negb (is_arr t)); [discriminate|]. destruct (negb (nodup_z axes)); [discriminate|].
    destruct (negb (forallb _ axes)); [discriminate|].
    apply register_inv in H. subst. destruct (map snd _); reflexivity.
  - (* CumSum *)
    destruct (is_arr t) eqn:A; cbn [negb] in H; [|discriminate]. destruct (zlen (shape_of t) <=? axis); [discriminate|].
    apply register_inv in H. subst. destruct t; try discriminate; reflexivity.
  - (* PermuteAxes *)
    destruct (negb (is_arr t)); [discriminate|]. destruct (negb (nodup_z perm)); [discriminate|].
    destruct (negb (forallb _ perm)); [discriminate|]. destruct (negb (zlen perm =? zlen (shape_of t))); [discriminate|].
    inv_bind H. apply register_inv in H. subst. reflexivity.
  - (* Get *)
    destruct (negb (is_arr t)); [discriminate|]. destruct (zlen (shape_of t) <? zlen idx); [discriminate|].
    destruct (negb (forallb _ _)); [discriminate|].
    destruct (zlen idx =? zlen (shape_of t)); apply register_inv in H; subst; reflexivity.
  - (* GetSlice *)
    destruct (negb (is_arr t)); [discriminate|]. inv_bind H. apply register_inv in H. subst. destruct x; reflexivity.
  - (* Reshape *)
    cbn [is_lin_op] in Hl. inv_bind H. inv_bind H. destruct (negb (x =? x0)); [discriminate|].
    inv_bind H. destruct (negb x1); [discriminate|]. apply register_inv in H. now subst.
Qed.

(* Stack / Concatenate build arrays *)
Lemma infer_nlin_leaf o ts r : is_nlin_op o = true -> infer o ts = Ok r -> is_leaf r = true.
Proof.
  intros Hn H. destruct o; try discriminate; unfold infer in H; cbn [arity] in H; unfold infer_op in H.
  - destruct (negb (is_valid_shape outer)); [discriminate|]. destruct (negb (zlen ts =? prod_list outer)); [discriminate|].
    inv_bind H. apply register_inv in H. subst. destruct (is_scalar x); reflexivity.
  - destruct (zlen ts <? 2); [discriminate|]. destruct (negb (forallb is_arr ts)); [discriminate|].
    cbv zeta in H. destruct (zlen (shape_of (nth 0 ts (TTuple []))) <=? axis); [discriminate|].
    inv_bind H. apply register_inv in H. subst. reflexivity.
Qed.

(* constants keep the type they carry *)
Lemma infer_const_ty o t r :
  (o = OZeros t \/ o = OOnes t \/ exists v, o = OConstant t v) -> infer o [] = Ok r -> r = t.
Proof.
  intros Ho H. unfold infer in H.
  destruct Ho as [-> | [-> | (v & ->)]]; cbn [arity] in H; change (zlen (@nil ty) =? 0) with true in H; cbv iota in H;
    unfold infer_op in H.
  - destruct (negb (ty_valid t)); [discriminate|]. now apply register_inv in H.
  - destruct (negb (ty_valid t)); [discriminate|]. now apply register_inv in H.
  - repeat match type of H with (if ?c then _ else _) = _ => destruct c; [discriminate|] end.
    repeat match type of H with bind _ _ = Ok _ => inv_bind H end.
    repeat match type of H with (if ?c then _ else _) = _ => destruct c; try discriminate end.
    now apply register_inv in H.
Qed.

(* the type of a gadget node of the elementwise fragment: a leaf, or a triple whose first
   component is a leaf *)
Definition share_ty (t : ty) : Prop := exists t1 t2 t3, t = TTuple [t1; t2; t3] /\ is_leaf t1 = true.

Lemma infer_bil_leaf o a b r : is_bil o = true -> infer o [a; b] = Ok r -> is_leaf r = true.
Proof.
  intros Hb H. destruct o; try discriminate.
  - eapply infer_arith_leaf in H; [tauto | reflexivity].
  - (* Dot *)
    unfold infer in H; cbn [arity] in H; change (zlen [a; b] =? 2) with true in H; cbv iota in H.
    unfold infer_op in H; cbn [nth] in H. inv_bind H. apply register_inv in H. subst.
    unfold dot_type_inference in E.
    destruct (is_leaf a) eqn:La; cbn [negb] in E; [|discriminate].
    destruct (is_leaf b) eqn:Lb; cbn [negb] in E; [|discriminate].
    destruct (negb (scalar_eqb (st_of a) (st_of b))); [discriminate|].
    destruct (is_arr a && is_arr b).
    + destruct ((zlen (shape_of a) =? 1) && (zlen (shape_of b) =? 1)).
      * inv_bind E. inv_bind E. match type of E with (if ?c then _ else _) = _ => destruct c; [discriminate|] end. inversion E; reflexivity.
      * destruct (zlen (shape_of b) =? 1).
        -- inv_bind E. inv_bind E. match type of E with (if ?c then _ else _) = _ => destruct c; [discriminate|] end. inversion E; reflexivity.
        -- inv_bind E. inv_bind E. match type of E with (if ?c then _ else _) = _ => destruct c; [discriminate|] end. inversion E; reflexivity.
    + destruct (is_arr a); inversion E; subst; assumption.
  - (* Matmul *)
    unfold infer in H; cbn [arity] in H; change (zlen [a; b] =? 2) with true in H; cbv iota in H.
    unfold infer_op in H; cbn [nth] in H. inv_bind H. apply register_inv in H. subst.
    unfold matmul_type_inference in E.
    destruct (negb (is_arr a)); [discriminate|]. destruct (negb (is_arr b)); [discriminate|].
    destruct (negb (scalar_eqb (st_of a) (st_of b))); [discriminate|].
    cbv zeta in E. inv_bind E. inv_bind E. match type of E with (if ?c then _ else _) = _ => destruct c; [discriminate|] end.
    match type of E with (if ?c then _ else _) = _ => destruct c; [discriminate|] end.
    inv_bind E. inv_bind E. inv_bind E.
    match type of E with match ?d with [] => _ | _ => _ end = _ => destruct d; inversion E; reflexivity end.
  - (* Gemm *)
    unfold infer in H; cbn [arity] in H; change (zlen [a; b] =? 2) with true in H; cbv iota in H.
    unfold infer_op in H; cbn [nth] in H. inv_bind H. apply register_inv in H. subst.
    unfold gemm_type_inference in E.
    destruct (negb (is_arr a)); [discriminate|]. destruct (negb (is_arr b)); [discriminate|].
    destruct (negb (scalar_eqb (st_of a) (st_of b))); [discriminate|].
    match type of E with (if ?c then _ else _) = _ => destruct c; [discriminate|] end.
    cbv zeta in E. inv_bind E. inv_bind E. match type of E with (if ?c then _ else _) = _ => destruct c; [discriminate|] end.
    inv_bind E. inv_bind E. inv_bind E. inversion E; reflexivity.
Qed.

Lemma mapM_parties {B} (f : Z -> result B) l : mapM f parties = Ok l ->
  exists a b c, l = [a; b; c] /\ f 0 = Ok a /\ f 1 = Ok b /\ f 2 = Ok c.
Proof.
  unfold parties. cbn [mapM]. intros H.
  destruct (f 0) as [a| | |]; cbn [bind] in H; try discriminate.
  destruct (f 1) as [b| | |]; cbn [bind] in H; try discriminate.
  destruct (f 2) as [c| | |]; cbn [bind] in H; try discriminate.
  inversion H; subst. eauto 10.
Qed.

Lemma mapM3 {A B} (f : A -> result B) a b c l : mapM f [a; b; c] = Ok l ->
  exists x y z, l = [x; y; z] /\ f a = Ok x /\ f b = Ok y /\ f c = Ok z.
Proof.
  cbn [mapM]. intros H.
  destruct (f a) as [x| | |]; cbn [bind] in H; try discriminate.
  destruct (f b) as [y| | |]; cbn [bind] in H; try discriminate.
  destruct (f c) as [z| | |]; cbn [bind] in H; try discriminate.
  inversion H; subst. eauto 10.
Qed.

(* on two public operands a gadget node has an array/scalar type *)
Lemma gadget_ty_pub g ta tb t :
  elem_gadget g = true -> is_leaf ta = true -> is_leaf tb = true -> gadget_ty g [ta; tb] = Ok t -> is_leaf t = true.
Proof.
  intros Hg La Lb H.
  destruct ta; try discriminate; destruct tb; try discriminate; destruct g as [| |p];
    cbv beta iota delta [gadget_ty] in H;
    first [ eapply infer_arith_leaf in H; [tauto | reflexivity] | eapply infer_bil_leaf; [exact Hg | exact H] ].
Qed.

Lemma gadget_ty_shape g t0 t1 r :
  elem_gadget g = true -> gadget_ty g [t0; t1] = Ok r ->
  (is_leaf t0 = true /\ is_leaf t1 = true) \/ share_ty r.
Proof.
  intros Hg H. unfold gadget_ty in H.
  assert (Tup : forall rs r, tuple_of_shares rs = Ok r -> forall a b c, rs = [a; b; c] -> is_leaf a = true -> share_ty r).
  { intros rs r' Hr a b c -> La. apply infer_ctuple in Hr. subst. exists a, b, c. auto. }
  assert (Prim : forall a b r, (match g with GAdd => infer OAdd [a; b] | GSub => infer OSubtract [a; b] | GBil p => infer p [a; b] end) = Ok r -> is_leaf r = true).
  { intros a b r' Hr. destruct g as [| |p].
    - eapply infer_arith_leaf in Hr; [tauto | reflexivity].
    - eapply infer_arith_leaf in Hr; [tauto | reflexivity].
    - eapply infer_bil_leaf; eauto. }
  destruct t0 as [s0|sh0 s0|n0 e0|v0|f0]; destruct t1 as [s1|sh1 s1|n1 e1|v1|f1]; try discriminate.
  1-2,4-5: left; split; reflexivity.
  1-4: right; inv_bind H; inv_bind H; destruct (mapM_parties _ _ E0) as (a & b & c & -> & F0 & _);
      eapply Tup; [exact H | reflexivity |]; inv_bind F0; destruct g as [| |p];
      first [ eapply infer_arith_leaf in F0; [tauto | reflexivity] | eapply infer_bil_leaf; eauto ].
  right. inv_bind H. inv_bind H. inv_bind H. destruct (mapM_parties _ _ E1) as (a & b & c & -> & F0 & _).
  eapply Tup; [exact H | reflexivity |].
  destruct g as [| |p].
  - inv_bind F0. inv_bind F0. apply infer_arith_leaf in F0; try reflexivity; tauto.
  - inv_bind F0. inv_bind F0. apply infer_arith_leaf in F0; try reflexivity; tauto.
  - inv_bind F0. inv_bind F0. inv_bind F0. inv_bind F0. inv_bind F0. inv_bind F0. inv_bind F0.
    apply infer_arith_leaf in F0; try reflexivity; tauto.
Qed.

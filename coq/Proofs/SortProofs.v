(* Proofs about Model/Sort.v (C18), part 1: the stable sort and the sorting permutation. *)
From Coq Require Import Permutation Sorted.
From CC Require Import Base.Prelude Base.Scalar Model.Sort.

(* ------------------------------------------------------------------ lex_cmp is a total preorder *)
Lemma lex_cmp_opp a b : lex_cmp b a = CompOpp (lex_cmp a b).
Proof.
  revert b; induction a as [|x a IH]; intros [|y b]; simpl; auto.
  rewrite (Z.compare_antisym x y). destruct (x ?= y); simpl; auto.
Qed.

Lemma lex_cmp_refl a : lex_cmp a a = Eq.
Proof. induction a as [|x a IH]; simpl; auto. now rewrite Z.compare_refl. Qed.

Lemma lex_cmp_eq a b : lex_cmp a b = Eq -> a = b.
Proof.
  revert b; induction a as [|x a IH]; intros [|y b]; simpl; try discriminate; auto.
  destruct (x ?= y) eqn:E; try discriminate. intros H. apply Z.compare_eq in E. f_equal; auto.
Qed.

Definition lex_le (a b : list Z) : Prop := lex_cmp a b <> Gt.
Definition lex_lt (a b : list Z) : Prop := lex_cmp a b = Lt.

Lemma lex_cmp_trans_lt_le a b c : lex_cmp a b = Lt -> lex_cmp b c <> Gt -> lex_cmp a c = Lt.
Proof.
  revert b c; induction a as [|x a IH]; intros [|y b] [|z c]; simpl; try congruence; auto.
  destruct (x ?= y) eqn:E1; try discriminate.
  - apply Z.compare_eq in E1; subst y. destruct (x ?= z) eqn:E2; auto; try congruence. apply IH.
  - destruct (y ?= z) eqn:E2; try congruence; intros _ _.
    + apply Z.compare_eq in E2; subst z. now rewrite E1.
    + assert (x < z) by (rewrite Z.compare_lt_iff in *; lia). now rewrite (proj2 (Z.compare_lt_iff x z)).
Qed.

Lemma lex_cmp_trans_eq_le a b c : lex_cmp a b = Eq -> lex_cmp b c = lex_cmp a c.
Proof. intros H. apply lex_cmp_eq in H. now subst. Qed.

Lemma lex_le_trans a b c : lex_le a b -> lex_le b c -> lex_le a c.
Proof.
  unfold lex_le. intros H1 H2. destruct (lex_cmp a b) eqn:E; try congruence.
  - now rewrite <- (lex_cmp_trans_eq_le a b c E).
  - rewrite (lex_cmp_trans_lt_le a b c E H2). discriminate.
Qed.

(* equal-length prefixes: compare the prefixes, then the rest *)
Lemma lex_cmp_app a1 b1 a2 b2 : length a1 = length b1 ->
  lex_cmp (a1 ++ a2) (b1 ++ b2) = match lex_cmp a1 b1 with Eq => lex_cmp a2 b2 | c => c end.
Proof.
  revert b1; induction a1 as [|x a1 IH]; intros [|y b1] L; simpl in *; try discriminate; auto.
  destruct (x ?= y); auto.
Qed.

(* ------------------------------------------------------------------ generic stable insertion sort *)
Section StableSortFacts.
  Context {A : Type} (cmp : A -> A -> comparison).
  Hypothesis cmp_opp : forall x y, cmp y x = CompOpp (cmp x y).
  Hypothesis cmp_trans : forall x y z, cmp x y <> Gt -> cmp y z <> Gt -> cmp x z <> Gt.

  Lemma insert_by_perm x l : Permutation (insert_by cmp x l) (x :: l).
  Proof.
    induction l as [|y l IH]; simpl; auto. destruct (cmp x y); auto.
    rewrite IH. apply perm_swap.
  Qed.

  Lemma stable_sort_by_perm l : Permutation (stable_sort_by cmp l) l.
  Proof. induction l as [|x l IH]; simpl; auto. rewrite insert_by_perm. auto. Qed.

  (* R is the order the input already has; the output is ordered by (key, R) lexicographically *)
  Section Lex.
    Variable R : A -> A -> Prop.
    Definition lexR (x y : A) : Prop := cmp x y = Lt \/ (cmp x y = Eq /\ R x y).

    Lemma insert_by_sorted x l :
      StronglySorted lexR l -> Forall (R x) l -> StronglySorted lexR (insert_by cmp x l).
    Proof.
      induction l as [|y l IH]; intros Hs Hr; simpl.
      - constructor; constructor.
      - inversion Hs as [|? ? Hs' Hy]; subst. inversion Hr as [|? ? Rxy Hr']; subst.
        destruct (cmp x y) eqn:E.
        + constructor; auto. constructor; [right; auto|].
          rewrite Forall_forall in *. intros z Hz. specialize (Hy z Hz). specialize (Hr' z Hz).
          assert (Hle : cmp x z <> Gt).
          { apply (cmp_trans x y z); [congruence|]. destruct Hy as [Hy|[Hy _]]; congruence. }
          destruct (cmp x z) eqn:Ez; [right; auto|left; auto|congruence].
        + constructor; auto. constructor; [left; auto|].
          rewrite Forall_forall in *. intros z Hz. specialize (Hy z Hz). specialize (Hr' z Hz).
          assert (Hle : cmp x z <> Gt).
          { apply (cmp_trans x y z); [congruence|]. destruct Hy as [Hy|[Hy _]]; congruence. }
          destruct (cmp x z) eqn:Ez; [right; auto|left; auto|congruence].
        + constructor; [apply IH; auto|].
          rewrite Forall_forall. intros z Hz.
          apply (Permutation_in _ (insert_by_perm x l)) in Hz. destruct Hz as [<-|Hz].
          * left. rewrite cmp_opp, E. reflexivity.
          * rewrite Forall_forall in Hy. auto.
    Qed.

    Lemma stable_sort_by_sorted l :
      StronglySorted R l -> StronglySorted lexR (stable_sort_by cmp l).
    Proof.
      induction l as [|x l IH]; intros Hs; simpl; [constructor|].
      inversion Hs as [|? ? Hs' Hx]; subst. apply insert_by_sorted; auto.
      rewrite Forall_forall in *. intros z Hz. apply Hx.
      apply (Permutation_in _ (stable_sort_by_perm l)). exact Hz.
    Qed.
  End Lex.
End StableSortFacts.

(* a strongly sorted list is determined by its elements when the order is antisymmetric *)
Lemma sorted_perm_unique {A} (R : A -> A -> Prop) l1 l2 :
  (forall x y, In x l1 -> In y l1 -> R x y -> R y x -> x = y) ->
  StronglySorted R l1 -> StronglySorted R l2 -> Permutation l1 l2 -> l1 = l2.
Proof.
  revert l2; induction l1 as [|a l1 IH]; intros l2 Hanti H1 H2 P.
  - apply Permutation_nil in P. now subst.
  - destruct l2 as [|b l2]; [apply Permutation_sym, Permutation_nil in P; discriminate|].
    inversion H1 as [|? ? H1' Ha]; subst. inversion H2 as [|? ? H2' Hb]; subst.
    assert (a = b).
    { assert (Ia : In a (b :: l2)) by (apply (Permutation_in _ P); left; auto).
      assert (Ib : In b (a :: l1)) by (apply (Permutation_in _ (Permutation_sym P)); left; auto).
      destruct Ia as [->|Ia]; auto. destruct Ib as [->|Ib]; auto.
      rewrite Forall_forall in Ha, Hb. apply Hanti; [left; auto|right; auto|auto|auto]. }
    subst b. f_equal. apply IH; auto.
    + intros x y Hx Hy. apply Hanti; right; auto.
    + eapply Permutation_cons_inv; eauto.
Qed.

(* ------------------------------------------------------------------ the sorting permutation *)
Lemma cmp_key_opp {B} (x y : list Z * B) : cmp_key y x = CompOpp (cmp_key x y).
Proof. apply lex_cmp_opp. Qed.
Lemma cmp_key_trans {B} (x y z : list Z * B) :
  cmp_key x y <> Gt -> cmp_key y z <> Gt -> cmp_key x z <> Gt.
Proof. apply lex_le_trans. Qed.

Definition idx_lt {B} (a b : B * nat) : Prop := (snd a < snd b)%nat.
(* rows of the sorted enumeration are ordered by (key, input position) *)
Definition key_idx_lt (a b : list Z * nat) : Prop := lexR cmp_key idx_lt a b.

Lemma combine_seq_sorted {B} (rows : list B) s n : StronglySorted idx_lt (combine rows (seq s n)).
Proof.
  revert s n; induction rows as [|r rows IH]; intros s [|n]; simpl; try constructor; auto.
  rewrite Forall_forall. intros [r' i] Hin. apply in_combine_r in Hin. apply in_seq in Hin.
  unfold idx_lt; simpl. lia.
Qed.

Definition sorted_enum (rows : list (list Z)) : list (list Z * nat) :=
  stable_sort_by cmp_key (combine rows (seq 0 (length rows))).

Lemma sorted_enum_sorted rows : StronglySorted key_idx_lt (sorted_enum rows).
Proof.
  apply stable_sort_by_sorted.
  - intros x y. apply cmp_key_opp.
  - intros x y z. apply cmp_key_trans.
  - apply combine_seq_sorted.
Qed.

Lemma sorted_enum_perm rows :
  Permutation (sorted_enum rows) (combine rows (seq 0 (length rows))).
Proof. apply stable_sort_by_perm. Qed.

Lemma map_fst_combine {A B} (l : list A) (l' : list B) :
  length l = length l' -> map fst (combine l l') = l.
Proof. revert l'; induction l; intros [|]; simpl; intros; try discriminate; f_equal; auto. Qed.
Lemma map_snd_combine {A B} (l : list A) (l' : list B) :
  length l = length l' -> map snd (combine l l') = l'.
Proof. revert l'; induction l; intros [|]; simpl; intros; try discriminate; f_equal; auto. Qed.

Lemma sorting_permutation_eq rows : sorting_permutation rows = map snd (sorted_enum rows).
Proof. reflexivity. Qed.

Lemma sorting_permutation_is_perm rows : is_perm (length rows) (sorting_permutation rows).
Proof.
  unfold is_perm. rewrite sorting_permutation_eq, (sorted_enum_perm rows).
  rewrite map_snd_combine; auto. now rewrite seq_length.
Qed.

Lemma sorting_permutation_length rows : length (sorting_permutation rows) = length rows.
Proof. rewrite (Permutation_length (sorting_permutation_is_perm rows)). apply seq_length. Qed.

Lemma in_combine_seq_nth {B} (d : B) rows s n r i :
  In (r, i) (combine rows (seq s n)) -> nth (i - s) rows d = r /\ (s <= i)%nat.
Proof.
  revert s n; induction rows as [|r0 rows IH]; intros s [|n]; simpl; try tauto.
  intros [H|H].
  - injection H as -> ->. rewrite Nat.sub_diag. auto.
  - apply IH in H as [H1 H2]. split; [|lia].
    replace (i - s)%nat with (S (i - S s)) by lia. exact H1.
Qed.

(* gathering any column of the same height with the sorting permutation: the key column gives
   the first components of the sorted enumeration *)
Lemma apply_sorting_permutation_keys d rows :
  apply_perm d (sorting_permutation rows) rows = map fst (sorted_enum rows).
Proof.
  unfold apply_perm. rewrite sorting_permutation_eq, map_map. apply map_ext_in.
  intros [r i] Hin. apply (Permutation_in _ (sorted_enum_perm rows)) in Hin.
  apply (in_combine_seq_nth d) in Hin as [H _]. rewrite Nat.sub_0_r in H. exact H.
Qed.

Lemma StronglySorted_map {A B} (f : A -> B) (R : B -> B -> Prop) l :
  StronglySorted (fun a b => R (f a) (f b)) l -> StronglySorted R (map f l).
Proof.
  induction 1 as [|a l Hs IH Ha]; simpl; constructor; auto.
  rewrite Forall_forall in *. intros y Hy. apply in_map_iff in Hy as (x & <- & Hx). auto.
Qed.

Lemma StronglySorted_weaken {A} (R R' : A -> A -> Prop) l :
  (forall a b, R a b -> R' a b) -> StronglySorted R l -> StronglySorted R' l.
Proof.
  intros HR. induction 1 as [|a l Hs IH Ha]; constructor; auto.
  apply Forall_impl with (P := R a); auto.
Qed.

Lemma StronglySorted_nth {A} (R : A -> A -> Prop) d l i j :
  StronglySorted R l -> (i < j < length l)%nat -> R (nth i l d) (nth j l d).
Proof.
  intros Hs. revert i j. induction Hs as [|a l Hs IH Ha]; intros i j Hij; simpl in *; [lia|].
  destruct j as [|j]; [lia|]. destruct i as [|i].
  - rewrite Forall_forall in Ha. apply Ha. apply nth_In. lia.
  - apply IH. lia.
Qed.

(* C18: sorted *)
Theorem sort_sorted rows :
  StronglySorted lex_le (apply_perm [] (sorting_permutation rows) rows).
Proof.
  rewrite apply_sorting_permutation_keys. apply StronglySorted_map.
  eapply StronglySorted_weaken; [|apply sorted_enum_sorted].
  intros a b [H|[H _]]; unfold lex_le, cmp_key in *; congruence.
Qed.

Lemma map_nth_seq {A} (d : A) l : map (fun i => nth i l d) (seq 0 (length l)) = l.
Proof.
  induction l as [|a l IH]; simpl; auto. f_equal. rewrite <- seq_shift, map_map. exact IH.
Qed.

(* C18: the output rows are a permutation of the input rows, for every column of that height *)
Theorem sort_perm {A} (d : A) rows (col : list A) :
  length col = length rows ->
  Permutation (apply_perm d (sorting_permutation rows) col) col.
Proof.
  intros L. unfold apply_perm.
  rewrite (Permutation_map _ (sorting_permutation_is_perm rows)). rewrite <- L.
  rewrite map_nth_seq. reflexivity.
Qed.

Lemma sorted_enum_length rows : length (sorted_enum rows) = length rows.
Proof.
  rewrite (Permutation_length (sorted_enum_perm rows)), combine_length, seq_length. lia.
Qed.

Lemma sorted_enum_nth rows i :
  (i < length rows)%nat ->
  let e := nth i (sorted_enum rows) ([], 0%nat) in
  snd e = nth i (sorting_permutation rows) 0%nat /\
  fst e = nth (snd e) rows [] /\ (snd e < length rows)%nat.
Proof.
  intros Hi e. split; [|split].
  - rewrite sorting_permutation_eq. change 0%nat with (snd (@nil Z, 0%nat)). now rewrite map_nth.
  - assert (Hin : In e (sorted_enum rows)) by (apply nth_In; now rewrite sorted_enum_length).
    apply (Permutation_in _ (sorted_enum_perm rows)) in Hin. destruct e as [r k].
    apply (in_combine_seq_nth []) in Hin as [H _]. rewrite Nat.sub_0_r in H. simpl. auto.
  - assert (Hin : In e (sorted_enum rows)) by (apply nth_In; now rewrite sorted_enum_length).
    apply (Permutation_in _ (sorted_enum_perm rows)) in Hin. destruct e as [r k].
    apply in_combine_r, in_seq in Hin. simpl. lia.
Qed.

(* C18: rows with equal keys keep their input order *)
Theorem sort_stable rows i j :
  let P := sorting_permutation rows in
  (i < j < length rows)%nat ->
  nth (nth i P 0%nat) rows [] = nth (nth j P 0%nat) rows [] ->
  (nth i P 0%nat < nth j P 0%nat)%nat.
Proof.
  intros P Hij Heq.
  pose proof (StronglySorted_nth _ ([], 0%nat) _ i j (sorted_enum_sorted rows)) as Hs.
  rewrite sorted_enum_length in Hs. specialize (Hs Hij).
  destruct (sorted_enum_nth rows i) as (Hi1 & Hi2 & _); [lia|].
  destruct (sorted_enum_nth rows j) as (Hj1 & Hj2 & _); [lia|].
  fold P in Hi1, Hj1. rewrite <- Hi1, <- Hj1.
  destruct Hs as [Hlt|[_ Hr]]; [|exact Hr].
  exfalso. unfold cmp_key in Hlt. rewrite Hi2, Hj2, Hi1, Hj1, Heq, lex_cmp_refl in Hlt. discriminate.
Qed.

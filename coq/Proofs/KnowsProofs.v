(* Soundness of the knowledge analysis (C02): if kcheck accepts a graph then, for every
   deterministic op semantics whose structural operations route values, all inputs, all junk and
   all three random tapes, every listed output party ends with the value of the global run. *)
From CC Require Import Base.Prelude Base.Scalar Base.Ty Base.Shape Graph.Value Graph.IR Model.Knows.

(* ------------------------------------------------------------------ generic list facts *)
Inductive Forall3 {A B C} (R : A -> B -> C -> Prop) : list A -> list B -> list C -> Prop :=
| F3_nil : Forall3 R [] [] []
| F3_cons a b c la lb lc : R a b c -> Forall3 R la lb lc -> Forall3 R (a :: la) (b :: lb) (c :: lc).

Lemma Forall3_length {A B C} (R : A -> B -> C -> Prop) la lb lc :
  Forall3 R la lb lc -> length la = length lb /\ length lb = length lc.
Proof. induction 1; cbn; intuition lia. Qed.

Lemma Forall3_app {A B C} (R : A -> B -> C -> Prop) la lb lc a b c :
  Forall3 R la lb lc -> R a b c -> Forall3 R (la ++ [a]) (lb ++ [b]) (lc ++ [c]).
Proof. induction 1; cbn; intros; repeat constructor; auto. Qed.

Lemma nth_res_ok_lt {A} (l : list A) n x : nth_res l n = Ok x -> (n < length l)%nat.
Proof.
  revert n; induction l as [|y l IH]; intros [|n]; cbn; try discriminate; try lia.
  intros H. apply IH in H. lia.
Qed.
Lemma nth_res_lt_ok {A} (l : list A) n : (n < length l)%nat -> exists x, nth_res l n = Ok x.
Proof.
  revert n; induction l as [|y l IH]; intros [|n]; cbn; try lia; eauto.
  intros H. apply IH. lia.
Qed.
Lemma nth_res_not_ok {A} (l : list A) n : (length l <= n)%nat -> nth_res l n = Panic.
Proof.
  revert n; induction l as [|y l IH]; intros [|n]; cbn; try lia; auto.
  intros H. apply IH. lia.
Qed.

Lemma Forall3_nth {A B C} (R : A -> B -> C -> Prop) la lb lc :
  Forall3 R la lb lc -> forall n a b c,
  nth_res la n = Ok a -> nth_res lb n = Ok b -> nth_res lc n = Ok c -> R a b c.
Proof.
  induction 1 as [|a0 b0 c0 la lb lc H0 H IH]; intros [|n] a b c; cbn; try discriminate.
  - intros Ea Eb Ec. injection Ea as <-. injection Eb as <-. injection Ec as <-. exact H0.
  - apply IH.
Qed.

Lemma znth_ok_range {A} (l : list A) i x : znth l i = Ok x -> 0 <= i < Z.of_nat (length l).
Proof.
  unfold znth. destruct (i <? 0) eqn:E; [discriminate|]. intros H. apply nth_res_ok_lt in H. lia.
Qed.
Lemma znth_range_ok {A} (l : list A) i : 0 <= i < Z.of_nat (length l) -> exists x, znth l i = Ok x.
Proof.
  intros H. unfold znth. replace (i <? 0) with false by lia. apply nth_res_lt_ok. lia.
Qed.
Lemma Forall3_znth {A B C} (R : A -> B -> C -> Prop) la lb lc i a b c :
  Forall3 R la lb lc -> znth la i = Ok a -> znth lb i = Ok b -> znth lc i = Ok c -> R a b c.
Proof.
  unfold znth. destruct (i <? 0); try discriminate. intros. eapply Forall3_nth; eauto.
Qed.
Lemma znth_app_old {A} (l : list A) y i x : znth l i = Ok x -> znth (l ++ [y]) i = Ok x.
Proof.
  unfold znth. destruct (i <? 0); try discriminate. generalize (Z.to_nat i). clear i.
  induction l as [|z l IH]; intros [|n]; cbn; try discriminate; auto.
Qed.
Lemma znth_map {A B} (f : A -> B) (l : list A) i x : znth l i = Ok x -> znth (map f l) i = Ok (f x).
Proof.
  unfold znth. destruct (i <? 0); try discriminate. generalize (Z.to_nat i). clear i.
  induction l as [|z l IH]; intros [|n]; cbn; try discriminate; auto.
  intros H. now injection H as <-.
Qed.

(* ------------------------------------------------------------------ party sets *)
Definition is_party (p : party) : Prop := p = 0 \/ p = 1 \/ p = 2.

Ltac pm :=
  unfold is_party, pmem, psingle, padd, premove, pinter, pall, pnone in *; cbn [ps0 ps1 ps2] in *;
  repeat match goal with
         | |- context [?a =? ?b] => destruct (Z.eqb_spec a b)
         | H : context [?a =? ?b] |- _ => destruct (Z.eqb_spec a b)
         end; subst; cbn [andb orb negb] in *;
  repeat match goal with
         | |- context [ps0 ?v] => destruct (ps0 v)
         | |- context [ps1 ?v] => destruct (ps1 v)
         | |- context [ps2 ?v] => destruct (ps2 v)
         end; cbn [andb orb negb] in *; try reflexivity; try discriminate; try lia; auto.

Lemma pmem_psingle p q : is_party p -> pmem p (psingle q) = true -> p = q.
Proof. intros H M. pm. Qed.
Lemma pmem_pinter p a b : pmem p (pinter a b) = pmem p a && pmem p b.
Proof. pm. Qed.
Lemma pmem_pall p : is_party p -> pmem p pall = true.
Proof. intros H. pm. Qed.
Lemma pmem_pnone p : pmem p pnone = false.
Proof. pm. Qed.
Lemma pmem_padd_same r v : is_party r -> pmem r (padd r v) = true.
Proof. intros H. pm. Qed.
Lemma pmem_padd_other p r v : p <> r -> pmem p (padd r v) = pmem p v.
Proof. intros H. pm. Qed.
Lemma pmem_premove_same r v : pmem r (premove r v) = false.
Proof. pm. Qed.
Lemma pmem_premove_other p r v : p <> r -> pmem p (premove r v) = pmem p v.
Proof. intros H. pm. Qed.

Section know_ind'.
  Variable P : know -> Prop.
  Hypothesis Hl : forall V, P (KLeaf V).
  Hypothesis Ht : forall ks, Forall P ks -> P (KTup ks).
  Fixpoint know_ind' (k : know) : P k :=
    match k with
    | KLeaf V => Hl V
    | KTup ks => Ht ks ((fix G (l : list know) : Forall P l :=
                           match l with [] => Forall_nil _ | x :: r => Forall_cons _ (know_ind' x) (G r) end) ks)
    end.
End know_ind'.

(* ------------------------------------------------------------------ agreement *)
(* party p's local value [lv] agrees with the global value [gv] wherever [k] says p knows it *)
Inductive agree (p : party) : know -> pval -> value -> Prop :=
| ag_leaf V lv gv : (pmem p V = true -> lv = embed gv) -> agree p (KLeaf V) lv gv
| ag_none ks lv gv : kjoin_mem p (KTup ks) = false -> agree p (KTup ks) lv gv
| ag_tup ks ls gs : Forall3 (agree p) ks ls gs -> agree p (KTup ks) (PTup ls) (VTup gs).

Section agree_ind'.
  Variable p : party.
  Variable P : know -> pval -> value -> Prop.
  Hypothesis Hl : forall V lv gv, (pmem p V = true -> lv = embed gv) -> P (KLeaf V) lv gv.
  Hypothesis Hn : forall ks lv gv, kjoin_mem p (KTup ks) = false -> P (KTup ks) lv gv.
  Hypothesis Ht : forall ks ls gs, Forall3 (agree p) ks ls gs -> Forall3 P ks ls gs -> P (KTup ks) (PTup ls) (VTup gs).
  Fixpoint agree_ind' k lv gv (H : agree p k lv gv) : P k lv gv :=
    match H with
    | ag_leaf _ V lv gv h => Hl V lv gv h
    | ag_none _ ks lv gv h => Hn ks lv gv h
    | ag_tup _ ks ls gs h =>
        Ht ks ls gs h
           ((fix go ks ls gs (h : Forall3 (agree p) ks ls gs) : Forall3 P ks ls gs :=
               match h with
               | F3_nil _ => F3_nil _
               | F3_cons _ a b c la lb lc r rest => F3_cons _ a b c la lb lc (agree_ind' a b c r) (go la lb lc rest)
               end) ks ls gs h)
    end.
End agree_ind'.

Lemma agree_nowhere p k lv gv : kjoin_mem p k = false -> agree p k lv gv.
Proof.
  destruct k as [V|ks]; intros H.
  - constructor. cbn in H. congruence.
  - now apply ag_none.
Qed.

Lemma kmeet_cons_mem p k ks : pmem p (kmeet (KTup (k :: ks))) = true ->
  pmem p (kmeet k) = true /\ (ks = [] \/ pmem p (kmeet (KTup ks)) = true).
Proof.
  cbn [kmeet fold_right]. rewrite pmem_pinter. intros H. apply andb_true_iff in H as [H1 H2].
  split; auto. destruct ks as [|k' ks']; [left; reflexivity|right]. exact H2.
Qed.

Lemma kmeet_in_join p k : pmem p (kmeet k) = true -> kjoin_mem p k = true.
Proof.
  induction k as [V|ks IH] using know_ind'.
  - auto.
  - destruct ks as [|k ks]; [cbn; intros H; rewrite pmem_pnone in H; discriminate|].
    intros H. apply kmeet_cons_mem in H as [H1 _]. cbn [kjoin_mem existsb].
    apply Forall_cons_iff in IH as [IH1 _]. rewrite (IH1 H1). reflexivity.
Qed.

(* knowing every leaf means holding the global value *)
Lemma agree_all p k lv gv : agree p k lv gv -> pmem p (kmeet k) = true -> lv = embed gv.
Proof.
  intros H. induction H as [V lv gv h|ks lv gv h|ks ls gs h IH] using agree_ind'; intros M.
  - auto.
  - apply kmeet_in_join in M. congruence.
  - cbn [embed]. f_equal. revert M. induction IH as [|k l g ks ls gs R _ IHr]; intros M.
    + reflexivity.
    + apply kmeet_cons_mem in M as [M1 M2]. cbn [map]. f_equal; [apply R; exact M1|].
      inversion h; subst. destruct M2 as [->|M2].
      * match goal with H : Forall3 _ [] _ _ |- _ => inversion H; subst end. reflexivity.
      * apply IHr; auto.
Qed.

(* ------------------------------------------------------------------ sends *)
Lemma kjoin_ksend_other p s r k : p <> r -> kjoin_mem p (ksend s r k) = kjoin_mem p k.
Proof.
  intros Hp. induction k as [V|ks IH] using know_ind'.
  - cbn. destruct (pmem s V); [apply pmem_padd_other | apply pmem_premove_other]; auto.
  - cbn [ksend kjoin_mem]. induction IH as [|k ks Hk _ IHr]; cbn [map existsb]; auto.
    rewrite Hk, IHr. reflexivity.
Qed.

(* a party other than the receiver keeps its agreement *)
Lemma agree_ksend_other p s r k lv gv : p <> r -> agree p k lv gv -> agree p (ksend s r k) lv gv.
Proof.
  intros Hp H. induction H as [V lv gv h|ks lv gv h|ks ls gs h IH] using agree_ind'.
  - cbn. constructor. destruct (pmem s V); [rewrite pmem_padd_other|rewrite pmem_premove_other]; auto.
  - cbn [ksend]. apply ag_none. change (KTup (map (ksend s r) ks)) with (ksend s r (KTup ks)).
    rewrite kjoin_ksend_other; auto.
  - cbn [ksend]. apply ag_tup. clear h. induction IH; cbn [map]; constructor; auto.
Qed.

Lemma kjoin_ksend_recv s r k : kjoin_mem s k = false -> kjoin_mem r (ksend s r k) = false.
Proof.
  induction k as [V|ks IH] using know_ind'.
  - cbn. intros ->. apply pmem_premove_same.
  - cbn [ksend kjoin_mem]. induction IH as [|k ks Hk _ IHr]; cbn [map existsb]; auto.
    intros H. apply orb_false_iff in H as [H1 H2]. rewrite Hk, IHr; auto.
Qed.

(* the receiver, now holding the sender's value, agrees wherever the sender did *)
Lemma agree_ksend_recv s r k lv gv : agree s k lv gv -> agree r (ksend s r k) lv gv.
Proof.
  intros H. induction H as [V lv gv h|ks lv gv h|ks ls gs h IH] using agree_ind'.
  - cbn. constructor. destruct (pmem s V) eqn:E; [auto|]. rewrite pmem_premove_same. discriminate.
  - cbn [ksend]. apply ag_none. change (KTup (map (ksend s r) ks)) with (ksend s r (KTup ks)).
    apply kjoin_ksend_recv; auto.
  - cbn [ksend]. apply ag_tup. clear h. induction IH; cbn [map]; constructor; auto.
Qed.

(* ------------------------------------------------------------------ triples *)
Lemma tget_tset_same {A} (v : triple A) r x : is_party r -> tget (tset v r x) r = x.
Proof. destruct v as [[a b] c]. intros [-> | [-> | ->]]; reflexivity. Qed.
Lemma tget_tset_other {A} (v : triple A) p r x : is_party p -> p <> r -> tget (tset v r x) p = tget v p.
Proof.
  destruct v as [[a b] c]. unfold tget, tset. intros Hp Hn.
  destruct (r =? 0) eqn:E0; [destruct Hp as [-> | [-> | ->]]; try reflexivity; lia|].
  destruct (r =? 1) eqn:E1; [destruct Hp as [-> | [-> | ->]]; try reflexivity; lia|].
  destruct (r =? 2) eqn:E2; [destruct Hp as [-> | [-> | ->]]; try reflexivity; lia|]. reflexivity.
Qed.
Lemma kjoin_nonparty s k : ~ is_party s -> kjoin_mem s k = false.
Proof.
  intros Hs. induction k as [V|ks IH] using know_ind'.
  - cbn. unfold pmem. destruct (s =? 0) eqn:E0; [exfalso; apply Hs; left; lia|].
    destruct (s =? 1) eqn:E1; [exfalso; apply Hs; right; left; lia|].
    destruct (s =? 2) eqn:E2; [exfalso; apply Hs; right; right; lia|]. reflexivity.
  - cbn [kjoin_mem]. induction IH as [|k ks Hk _ IHr]; cbn [existsb]; auto. now rewrite Hk, IHr.
Qed.
Lemma is_party_dec p : is_party p \/ ~ is_party p.
Proof. unfold is_party. lia. Qed.

Lemma sends_sound sends : forall k (vals : triple pval) gv,
  (forall p, is_party p -> agree p k (tget vals p) gv) ->
  forall p, is_party p ->
  agree p (fold_left (fun k sr => ksend (fst sr) (snd sr) k) sends k)
          (tget (fold_left (fun v sr => tset v (snd sr) (tget v (fst sr))) sends vals) p) gv.
Proof.
  induction sends as [|[s r] sends IH]; intros k vals gv H p Hp; cbn [fold_left fst snd].
  - auto.
  - apply IH; auto. clear p Hp. intros p Hp.
    destruct (Z.eq_dec p r) as [->|Hn].
    + rewrite tget_tset_same by auto.
      destruct (is_party_dec s) as [Hs|Hs].
      * apply agree_ksend_recv. auto.
      * apply agree_nowhere. apply kjoin_ksend_recv. apply kjoin_nonparty. auto.
    + rewrite tget_tset_other by auto. apply agree_ksend_other; auto.
Qed.

(* ------------------------------------------------------------------ embed / extract *)
Lemma extract_embed v : extract (embed v) = Some v.
Proof.
  induction v as [es|vs IH] using value_ind'; cbn [embed extract]; auto.
  assert (G : (fix go (l : list pval) : option (list value) :=
                 match l with
                 | [] => Some []
                 | x :: r => match extract x, go r with Some a, Some b => Some (a :: b) | _, _ => None end
                 end) (map embed vs) = Some vs).
  { induction IH as [|v vs Hv _ IHr]; cbn [map]; auto. rewrite Hv, IHr. reflexivity. }
  rewrite G. reflexivity.
Qed.

Lemma mapM_ok_forall2 {A B} (f : A -> result B) l r :
  mapM f l = Ok r -> Forall2 (fun a b => f a = Ok b) l r.
Proof.
  revert r; induction l as [|a l IH]; intros r; cbn [mapM].
  - intros H. injection H as <-. constructor.
  - destruct (f a) as [b| | |] eqn:E; cbn [bind]; try discriminate.
    destruct (mapM f l) as [bs| | |]; cbn [bind]; try discriminate.
    intros H. injection H as <-. constructor; auto.
Qed.
Lemma forall2_mapM_ok {A B} (f : A -> result B) l r :
  Forall2 (fun a b => f a = Ok b) l r -> mapM f l = Ok r.
Proof. induction 1 as [|a b l r E _ IH]; cbn [mapM]; auto. rewrite E, IH. reflexivity. Qed.

(* ------------------------------------------------------------------ the invariant *)
Section Sound.
  Variable sem : op -> list ty -> ty -> list value -> value -> result value.
  (* the structural operations route sub-values, and only the is_randdep_op operations look at the
     evaluating party's own draw (this is all the proof needs to know about sem) *)
  Hypothesis sem_tuple : forall o dts t vs r v,
    route_of dts o = RTuple -> sem o dts t vs r = Ok v -> v = VTup vs.
  Hypothesis sem_nop : forall o dts t d rest r v,
    route_of dts o = RNop -> sem o dts t (d :: rest) r = Ok v -> v = d.
  Hypothesis sem_get : forall o dts t j d rest r v,
    route_of dts o = RGet j -> sem o dts t (d :: rest) r = Ok v -> exists l, d = VTup l /\ znth l j = Ok v.
  Hypothesis sem_det : forall o dts t vs r r',
    is_randdep_op o = false -> sem o dts t vs r = sem o dts t vs r'.

  Variable c : config.
  Variable tapes : party -> Z -> value.
  (* the global value of a Random-like node is the draw of the certified party *)
  Definition rho (i : Z) : value := tapes (cert_of c i) i.

  Definition lookup (env : list pval) (d : Z) : pval := match znth env d with Ok x => x | _ => PPoison end.
  Definition dep_k (ks : list know) (d : Z) : know := match znth ks d with Ok k => k | _ => KLeaf pnone end.

  Definition inputs_agree (sts : list status) (gins : list value) (lins : list (triple pval)) : Prop :=
    Forall3 (fun st gv l3 => forall p, is_party p -> agree p (input_know st) (tget l3 p) gv) sts gins lins.

  Record Inv (before : list node) (ks : list know) (genv : list value) (envs : triple (list pval))
             (sts : list status) (gins : list value) (lins : list (triple pval)) : Prop := {
    inv_agree : forall p, is_party p -> Forall3 (agree p) ks (tget envs p) genv;
    inv_inputs : inputs_agree sts gins lins
  }.

  Lemma deps_agree p ks env genv ds gvs :
    Forall3 (agree p) ks env genv ->
    mapM (fun d => znth genv d) ds = Ok gvs ->
    Forall3 (agree p) (map (dep_k ks) ds) (map (lookup env) ds) gvs.
  Proof.
    intros F M. apply mapM_ok_forall2 in M.
    pose proof (Forall3_length _ _ _ _ F) as [L1 L2].
    induction M as [|d gv ds gvs E _ IH]; cbn [map]; constructor; [|exact IH].
    pose proof (znth_ok_range _ _ _ E) as R.
    destruct (znth_range_ok ks d) as (k & Ek); [lia|].
    destruct (znth_range_ok env d) as (lv & El); [lia|].
    unfold dep_k, lookup. rewrite Ek, El.
    exact (Forall3_znth _ ks env genv d k lv gv F Ek El E).
  Qed.

  Lemma fold_pinter_mem p ks ds :
    pmem p (fold_right (fun d acc => pinter (kmeet (dep_k ks d)) acc) pall ds) = true ->
    Forall (fun k => pmem p (kmeet k) = true) (map (dep_k ks) ds).
  Proof.
    induction ds as [|d ds IH]; cbn [fold_right map]; [constructor|].
    rewrite pmem_pinter. intros H. apply andb_true_iff in H as [H1 H2]. constructor; auto.
  Qed.

  Lemma known_deps_extract p kl ll gl :
    Forall3 (agree p) kl ll gl -> Forall (fun k => pmem p (kmeet k) = true) kl ->
    mapM (fun d => match extract d with Some v => Ok v | None => Err end) ll = Ok gl.
  Proof.
    induction 1 as [|k l g kl ll gl A _ IH]; intros K; cbn [mapM]; [reflexivity|].
    apply Forall_cons_iff in K as [K1 K2].
    rewrite (agree_all p k l g A K1), extract_embed. cbn [bind]. rewrite (IH K2). reflexivity.
  Qed.

  Lemma znth_embed_tuple l j v : znth l j = Ok v -> znth (map embed l) j = Ok (embed v).
  Proof. apply znth_map. Qed.

  (* the value a party computes for a node, before the Sends, agrees with the global value *)
  Lemma node_sound p i before nd ks env genv gvs gv :
    is_party p ->
    Forall3 (agree p) ks env genv ->
    mapM (fun d => znth genv d) (n_deps nd) = Ok gvs ->
    sem (n_op nd) (dep_types before (n_deps nd)) (n_ty nd) gvs (rho i) = Ok gv ->
    agree p
      (match route_of (dep_types before (n_deps nd)) (n_op nd), n_deps nd with
       | RTuple, ds => KTup (map (dep_k ks) ds)
       | RNop, d :: _ => dep_k ks d
       | RGet j, d :: _ => kget (dep_k ks d) j
       | _, ds => KLeaf (let v := fold_right (fun d acc => pinter (kmeet (dep_k ks d)) acc) pall ds in
                        if is_randdep_op (n_op nd) then pinter (psingle (cert_of c i)) v else v)
       end)
      (lnode sem before nd (map (lookup env) (n_deps nd)) (tapes p i)) gv.
  Proof.
    intros Hp F M S. pose proof (deps_agree p ks env genv _ _ F M) as D.
    unfold lnode.
    set (dts := dep_types before (n_deps nd)) in *.
    assert (Generic : agree p (KLeaf (let v := fold_right (fun d acc => pinter (kmeet (dep_k ks d)) acc) pall (n_deps nd) in
                                      if is_randdep_op (n_op nd) then pinter (psingle (cert_of c i)) v else v))
              (match mapM (fun d => match extract d with Some v => Ok v | None => Err end) (map (lookup env) (n_deps nd)) with
               | Ok vs => match sem (n_op nd) dts (n_ty nd) vs (tapes p i) with
                          | Ok v => embed v | _ => PPoison end
               | _ => PPoison end) gv).
    { constructor. cbv zeta. intros Hm.
      assert (Hm' : pmem p (fold_right (fun d acc => pinter (kmeet (dep_k ks d)) acc) pall (n_deps nd)) = true
                    /\ sem (n_op nd) dts (n_ty nd) gvs (tapes p i) = Ok gv).
      { destruct (is_randdep_op (n_op nd)) eqn:ERD.
        - rewrite pmem_pinter in Hm. apply andb_true_iff in Hm as [H1 H2]. split; auto.
          apply pmem_psingle in H1; auto. unfold rho in S. rewrite <- H1 in S. exact S.
        - split; auto. rewrite (sem_det _ _ _ _ (tapes p i) (rho i) ERD). exact S. }
      destruct Hm' as [Hm1 Hm2]. apply fold_pinter_mem in Hm1.
      rewrite (known_deps_extract p _ _ _ D Hm1), Hm2. reflexivity. }
    destruct (route_of dts (n_op nd)) as [ | j | | ] eqn:R.
    - (* RTuple *)
      rewrite (sem_tuple _ _ _ _ _ _ R S). apply ag_tup. exact D.
    - (* RGet j *)
      destruct (n_deps nd) as [|d ds] eqn:Eds; [exact Generic|].
      cbn [map] in *. inversion D as [|k lv g kl ll gl A Dr]; subst.
      destruct (sem_get _ _ _ _ _ _ _ _ R S) as (gl0 & -> & Ej).
      remember (dep_k ks d) as kd. remember (lookup env d) as lvd.
      clear Heqkd Heqlvd Generic D M.
      inversion A as [V lv0 gv0 h | ks0 lv0 gv0 h | ks0 ls gs h]; subst; cbn [kget].
      + constructor. intros Hm. rewrite (h Hm). cbn [embed]. rewrite (znth_embed_tuple _ _ _ Ej). reflexivity.
      + apply agree_nowhere. destruct (znth ks0 j) as [k'| | |] eqn:Ek; try (cbn; apply pmem_pnone).
        cbn [kjoin_mem] in h. clear -h Ek.
        unfold znth in Ek. destruct (j <? 0); try discriminate. revert Ek. generalize (Z.to_nat j).
        induction ks0 as [|k0 ks0 IH]; intros [|n]; cbn; try discriminate.
        * intros E. injection E as <-. cbn [existsb] in h. apply orb_false_iff in h. tauto.
        * cbn [existsb] in h. apply orb_false_iff in h as [_ h]. apply IH; auto.
      + pose proof (Forall3_length _ _ _ _ h) as [L1 L2].
        pose proof (znth_ok_range _ _ _ Ej) as Rg.
        destruct (znth_range_ok ks0 j) as (k' & Ek); [lia|].
        destruct (znth_range_ok ls j) as (l' & El); [lia|].
        rewrite Ek, El. exact (Forall3_znth _ ks0 ls gl0 j k' l' gv h Ek El Ej).
    - (* RNop *)
      destruct (n_deps nd) as [|d ds] eqn:Eds; [exact Generic|].
      cbn [map] in *. inversion D as [|k lv g kl ll gl A Dr]; subst.
      rewrite (sem_nop _ _ _ _ _ _ _ R S). exact A.
    - exact Generic.
  Qed.

  Lemma tget_app3 (envs : triple (list pval)) (vals : triple pval) p :
    is_party p ->
    tget (let '(e0, e1, e2) := envs in (e0 ++ [tget vals 0], e1 ++ [tget vals 1], e2 ++ [tget vals 2])) p
    = tget envs p ++ [tget vals p].
  Proof. destruct envs as [[e0 e1] e2]. intros [-> | [-> | ->]]; reflexivity. Qed.

  (* one node: the three folds stay in step and the invariant is preserved *)
  Lemma step_sound before ks genv envs sts gins lins nd ks1 sts1 b1 genv2 gins2 b2 envs3 lins3 b3 :
    Inv before ks genv envs sts gins lins ->
    length ks = length before ->
    know_step c (Ok (before, ks, sts)) nd = Ok (b1, ks1, sts1) ->
    gstep sem rho (Some (before, genv, gins)) nd = Some (b2, genv2, gins2) ->
    lstep sem tapes (Some (before, envs, lins)) nd = Some (b3, envs3, lins3) ->
    b1 = before ++ [nd] /\ b2 = before ++ [nd] /\ b3 = before ++ [nd] /\
    length ks1 = length b1 /\
    Inv b1 ks1 genv2 envs3 sts1 gins2 lins3.
  Proof.
    intros [IA II] Lk K G L. destruct envs as [[e0 e1] e2].
    unfold know_step in K. cbn [bind] in K.
    unfold gstep in G. unfold lstep in L.
    set (i := Z.of_nat (length before)) in *.
    (* common shape: pre-send knowledge k0 / values vals / global value gv *)
    assert (Core : forall k0 vals gv sts' gins' lins',
              (forall p, is_party p -> agree p k0 (tget vals p) gv) ->
              inputs_agree sts' gins' lins' ->
              forall ks' envs',
              ks' = ks ++ [fold_left (fun k sr => ksend (fst sr) (snd sr) k) (sends_of nd) k0] ->
              envs' = (let vals' := fold_left (fun v sr => tset v (snd sr) (tget v (fst sr))) (sends_of nd) vals in
                       let '(e0, e1, e2) := (e0, e1, e2) in (e0 ++ [tget vals' 0], e1 ++ [tget vals' 1], e2 ++ [tget vals' 2])) ->
              length ks' = length (before ++ [nd]) /\
              Inv (before ++ [nd]) ks' (genv ++ [gv]) envs' sts' gins' lins').
    { intros k0 vals gv sts' gins' lins' Pre Ins ks' envs' -> ->. split.
      - rewrite !app_length. cbn. lia.
      - constructor; auto. intros p Hp. cbv zeta.
        set (vals' := fold_left (fun v sr => tset v (snd sr) (tget v (fst sr))) (sends_of nd) vals).
        replace (tget (e0 ++ [tget vals' 0], e1 ++ [tget vals' 1], e2 ++ [tget vals' 2]) p)
          with (tget (e0, e1, e2) p ++ [tget vals' p]) by (destruct Hp as [-> | [-> | ->]]; reflexivity).
        apply Forall3_app; auto. apply sends_sound; auto. }
    destruct (is_input (n_op nd)) eqn:EI.
    - (* input *)
      destruct sts as [|st sts']; cbn [bind] in K; [discriminate|].
      destruct gins as [|gv gins']; [discriminate|].
      destruct lins as [|l3 lins']; [discriminate|].
      cbn [bind] in K. injection K as <- <- <-. injection G as <- <- <-. injection L as <- <- <-.
      inversion II as [|st0 gv0 l30 a b c0 H0 Hr]; subst.
      destruct (Core (input_know st) l3 gv sts' gins' lins' H0 Hr _ _ eq_refl eq_refl) as [C1 C2].
      do 3 (split; [reflexivity|]). split; [exact C1 | exact C2].
    - destruct (is_uninlined (n_op nd)) eqn:EU; [cbn [bind] in K; discriminate|].
      destruct (is_random_op (n_op nd)) eqn:ER.
      + (* random-like: every party draws its own value *)
        cbn [bind] in K. injection K as <- <- <-. injection G as <- <- <-. injection L as <- <- <-.
        destruct (Core (KLeaf (psingle (cert_of c i)))
                       (embed (tapes 0 i), embed (tapes 1 i), embed (tapes 2 i)) (rho i) sts gins lins) with
          (ks' := ks ++ [fold_left (fun k sr => ksend (fst sr) (snd sr) k) (sends_of nd) (KLeaf (psingle (cert_of c i)))])
          (envs' := (let vals' := fold_left (fun v sr => tset v (snd sr) (tget v (fst sr))) (sends_of nd)
                                    (embed (tapes 0 i), embed (tapes 1 i), embed (tapes 2 i)) in
                     let '(e0, e1, e2) := (e0, e1, e2) in (e0 ++ [tget vals' 0], e1 ++ [tget vals' 1], e2 ++ [tget vals' 2])))
          as [C1 C2]; auto.
        { intros p Hp. constructor. intros Hm. apply pmem_psingle in Hm; auto. unfold rho. rewrite <- Hm.
          destruct Hp as [-> | [-> | ->]]; reflexivity. }
      + (* computed node *)
        cbn [bind] in K. injection K as <- <- <-.
        destruct (mapM (fun d => znth genv d) (n_deps nd)) as [gvs| | |] eqn:EM; try discriminate.
        destruct (sem (n_op nd) (dep_types before (n_deps nd)) (n_ty nd) gvs (rho i)) as [gv| | |] eqn:ES; try discriminate.
        injection G as <- <- <-. injection L as <- <- <-.
        match goal with
        | |- context [ks ++ [fold_left _ (sends_of nd) ?K0]] => set (k0 := K0)
        end.
        destruct (Core k0
                       (lnode sem before nd (map (fun d => match znth (tget (e0, e1, e2) 0) d with Ok x => x | _ => PPoison end) (n_deps nd)) (tapes 0 i),
                        lnode sem before nd (map (fun d => match znth (tget (e0, e1, e2) 1) d with Ok x => x | _ => PPoison end) (n_deps nd)) (tapes 1 i),
                        lnode sem before nd (map (fun d => match znth (tget (e0, e1, e2) 2) d with Ok x => x | _ => PPoison end) (n_deps nd)) (tapes 2 i))
                       gv sts gins lins) with
          (ks' := ks ++ [fold_left (fun k sr => ksend (fst sr) (snd sr) k) (sends_of nd) k0])
          (envs' := (let vals' := fold_left (fun v sr => tset v (snd sr) (tget v (fst sr))) (sends_of nd)
                       (lnode sem before nd (map (fun d => match znth (tget (e0, e1, e2) 0) d with Ok x => x | _ => PPoison end) (n_deps nd)) (tapes 0 i),
                        lnode sem before nd (map (fun d => match znth (tget (e0, e1, e2) 1) d with Ok x => x | _ => PPoison end) (n_deps nd)) (tapes 1 i),
                        lnode sem before nd (map (fun d => match znth (tget (e0, e1, e2) 2) d with Ok x => x | _ => PPoison end) (n_deps nd)) (tapes 2 i)) in
                     let '(e0, e1, e2) := (e0, e1, e2) in (e0 ++ [tget vals' 0], e1 ++ [tget vals' 1], e2 ++ [tget vals' 2])))
          as [C1 C2]; auto.
        { intros p Hp.
          pose proof (node_sound p i before nd ks (tget (e0, e1, e2) p) genv gvs gv Hp (IA p Hp) EM ES) as NS.
          unfold lookup, dep_k in NS. subst k0.
          destruct Hp as [-> | [-> | ->]]; exact NS. }
  Qed.

  (* the whole graph *)
  Lemma run_sound nodes : forall before ks genv envs sts gins lins accK accG accL,
    Inv before ks genv envs sts gins lins ->
    length ks = length before ->
    fold_left (know_step c) nodes (Ok (before, ks, sts)) = Ok accK ->
    fold_left (gstep sem rho) nodes (Some (before, genv, gins)) = Some accG ->
    fold_left (lstep sem tapes) nodes (Some (before, envs, lins)) = Some accL ->
    let '(_, ks', _) := accK in let '(_, genv', _) := accG in let '(_, envs', _) := accL in
    forall p, is_party p -> Forall3 (agree p) ks' (tget envs' p) genv'.
  Proof.
    induction nodes as [|nd nodes IH]; intros before ks genv envs sts gins lins accK accG accL I Lk K G L.
    - cbn [fold_left] in *. injection K as <-. injection G as <-. injection L as <-. apply I.
    - cbn [fold_left] in K, G, L.
      destruct (know_step c (Ok (before, ks, sts)) nd) as [[[b1 ks1] sts1]| | |] eqn:EK.
      2-4: (exfalso; clear -K; induction nodes as [|x l IHl]; cbn [fold_left] in K; [discriminate|];
            unfold know_step at 2 in K; cbn [bind] in K; auto).
      destruct (gstep sem rho (Some (before, genv, gins)) nd) as [[[b2 genv2] gins2]|] eqn:EG.
      2: (exfalso; clear -G; induction nodes as [|x l IHl]; cbn [fold_left] in G; [discriminate|]; auto).
      destruct (lstep sem tapes (Some (before, envs, lins)) nd) as [[[b3 envs3] lins3]|] eqn:EL.
      2: (exfalso; clear -L; induction nodes as [|x l IHl]; cbn [fold_left] in L; [discriminate|]; auto).
      destruct (step_sound _ _ _ _ _ _ _ _ _ _ _ _ _ _ _ _ _ I Lk EK EG EL) as (-> & -> & -> & L1 & I1).
      eapply IH; eauto.
  Qed.

  (* ---------------------------------------------------------------- main theorem *)
  Theorem kcheck_sound nodes output gin lin genv envs :
    kcheck c nodes output = true ->
    inputs_agree (cfg_inputs c) gin lin ->
    grun sem rho gin nodes = Some genv ->
    lrun sem tapes lin nodes = Some envs ->
    (* revealed output: every listed party holds the global output value *)
    (cfg_outputs c <> [] ->
     forall p gv, In p (cfg_outputs c) -> is_party p -> znth genv output = Ok gv ->
                  znth (tget envs p) output = Ok (embed gv)) /\
    (* output kept shared: slot j is held, identically to the global run, by parties j and j-1 *)
    (cfg_outputs c = [] ->
     forall j p gs lv, (j = 0 \/ j = 1 \/ j = 2) -> (p = j \/ p = (j + 2) mod 3) ->
                  znth genv output = Ok (VTup gs) -> znth (tget envs p) output = Ok lv ->
                  forall g, znth gs j = Ok g ->
                  match lv with
                  | PTup ls => znth ls j = Ok (embed g)
                  | _ => False
                  end).
  Proof.
    unfold kcheck, know_all, grun, lrun. intros KC IN GR LR.
    destruct (fold_left (know_step c) nodes (Ok ([], [], cfg_inputs c))) as [[[bk ks] stsk]| | |] eqn:EK;
      cbn [bind] in KC; try discriminate.
    destruct (fold_left (gstep sem rho) nodes (Some ([], [], gin))) as [[[bg genv'] ginr]|] eqn:EG; [|discriminate].
    injection GR as <-.
    destruct (fold_left (lstep sem tapes) nodes (Some ([], ([], [], []), lin))) as [[[bl envs'] linr]|] eqn:EL; [|discriminate].
    injection LR as <-.
    assert (I0 : Inv [] [] [] ([], [], []) (cfg_inputs c) gin lin).
    { constructor; auto. intros p [-> | [-> | ->]]; constructor. }
    pose proof (run_sound nodes [] [] [] ([], [], []) (cfg_inputs c) gin lin _ _ _ I0 eq_refl EK EG EL) as A.
    cbv beta iota in A.
    destruct (znth ks output) as [k| | |] eqn:Ek; try discriminate.
    split.
    - intros Hne p gv Hin Hp Eg.
      destruct (cfg_outputs c) as [|q qs] eqn:Eo; [congruence|].
      unfold subset_mem in KC. rewrite forallb_forall in KC. specialize (KC p Hin).
      pose proof (Forall3_length _ _ _ _ (A p Hp)) as [L1 L2].
      pose proof (znth_ok_range _ _ _ Eg) as R.
      destruct (znth_range_ok (tget envs' p) output) as (lv & El); [lia|].
      rewrite El. f_equal.
      apply (agree_all p k lv gv); auto.
      exact (Forall3_znth _ ks (tget envs' p) genv' output k lv gv (A p Hp) Ek El Eg).
    - intros He j p gs lv Hj Hpj Eg El g Egj.
      rewrite He in KC. rewrite forallb_forall in KC.
      assert (Hjin : In j [0; 1; 2]) by (cbn; lia).
      specialize (KC j Hjin). apply andb_true_iff in KC as [K1 K2].
      assert (Hp : is_party p).
      { unfold is_party. destruct Hj as [-> | [-> | ->]]; destruct Hpj as [-> | ->]; cbn; lia. }
      assert (Km : pmem p (kmeet (kget k j)) = true) by (destruct Hpj as [-> | ->]; auto).
      pose proof (Forall3_znth _ ks (tget envs' p) genv' output k lv (VTup gs) (A p Hp) Ek El Eg) as Ag.
      inversion Ag as [V lv0 gv0 h | ks0 lv0 gv0 h | ks0 ls gs0 h]; subst.
      + cbn [kget kmeet] in Km. rewrite (h Km). cbn [embed]. apply znth_map. exact Egj.
      + exfalso. apply kmeet_in_join in Km. cbn [kget] in Km.
        destruct (znth ks0 j) as [k'| | |] eqn:Ek0; try (cbn in Km; rewrite pmem_pnone in Km; discriminate).
        cbn [kjoin_mem] in h. clear -h Ek0 Km.
        unfold znth in Ek0. destruct (j <? 0); try discriminate. revert Ek0. generalize (Z.to_nat j).
        induction ks0 as [|k0 ks0 IH]; intros [|n]; cbn; try discriminate.
        * intros E. injection E as <-. cbn [existsb] in h. apply orb_false_iff in h. destruct h. congruence.
        * cbn [existsb] in h. apply orb_false_iff in h as [_ h]. apply IH; auto.
      + pose proof (Forall3_length _ _ _ _ h) as [L1 L2].
        pose proof (znth_ok_range _ _ _ Egj) as Rg.
        destruct (znth_range_ok ks0 j) as (k' & Ek'); [lia|].
        destruct (znth_range_ok ls j) as (l' & El'); [lia|].
        cbn [kget] in Km. rewrite Ek' in Km. rewrite El'. f_equal.
        apply (agree_all p k' l' g); auto.
        exact (Forall3_znth _ ks0 ls gs j k' l' g h Ek' El' Egj).
  Qed.
End Sound.

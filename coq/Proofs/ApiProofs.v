(* C11 proofs: the well-formedness invariant of Model/Api.v is preserved by every call, failed
   calls roll back exactly, finalized objects reject mutation. *)
From CC Require Import Base.Prelude Model.Api.
Local Open Scope N_scope.

(* ------------------------------------------------------------------ key equalities *)
Lemma keq2_spec a b : keq2 a b = true <-> a = b.
Proof.
  destruct a as [a1 a2], b as [b1 b2]; unfold keq2; cbn [fst snd].
  rewrite andb_true_iff, !N.eqb_eq. split; [intros [-> ->]; reflexivity | intros [= -> ->]; auto].
Qed.
Lemma keqs_spec a b : keqs a b = true <-> a = b.
Proof.
  destruct a as [a1 a2], b as [b1 b2]; unfold keqs; cbn [fst snd].
  rewrite andb_true_iff, N.eqb_eq, String.eqb_eq. split; [intros [-> ->]; reflexivity | intros [= -> ->]; auto].
Qed.

Section AssocLemmas.
  Context {K V : Type} (keq : K -> K -> bool).
  Hypothesis keq_spec : forall a b, keq a b = true <-> a = b.

  Lemma keq_refl a : keq a a = true.
  Proof. apply keq_spec; reflexivity. Qed.
  Lemma keq_neq a b : a <> b -> keq a b = false.
  Proof. intros H. destruct (keq a b) eqn:E; [apply keq_spec in E; contradiction | reflexivity]. Qed.

  Lemma lookup_cons_eq k (v : V) l : lookup keq k ((k, v) :: l) = Some v.
  Proof. cbn. now rewrite keq_refl. Qed.
  Lemma lookup_cons_neq k k' (v : V) l : k <> k' -> lookup keq k ((k', v) :: l) = lookup keq k l.
  Proof. intros H. cbn. now rewrite keq_neq. Qed.
  Lemma lookup_cons k k' (v : V) l :
    lookup keq k ((k', v) :: l) = if keq k k' then Some v else lookup keq k l.
  Proof. reflexivity. Qed.

  Lemma remove_absent k (l : list (K * V)) : lookup keq k l = None -> remove keq k l = l.
  Proof.
    unfold remove. induction l as [|[k' v] r IH]; cbn [lookup filter fst]; [reflexivity|].
    destruct (keq k k') eqn:E; [discriminate|]. intros H. cbn [negb]. f_equal. apply IH, H.
  Qed.
  Lemma remove_cons_eq k (v : V) l : remove keq k ((k, v) :: l) = remove keq k l.
  Proof. unfold remove; cbn. now rewrite keq_refl. Qed.

  Lemma lookup_replace_eq k (v v0 : V) l :
    lookup keq k l = Some v0 -> lookup keq k (replace keq k v l) = Some v.
  Proof.
    induction l as [|[k' v'] r IH]; cbn; [discriminate|].
    destruct (keq k k') eqn:E; cbn; rewrite E; auto.
  Qed.
  Lemma lookup_replace_neq k k2 (v : V) l :
    k2 <> k -> lookup keq k2 (replace keq k v l) = lookup keq k2 l.
  Proof.
    intros Hn. induction l as [|[k' v'] r IH]; cbn; [reflexivity|].
    destruct (keq k k') eqn:E; cbn.
    - apply keq_spec in E; subst k'. now rewrite (keq_neq k2 k Hn).
    - now rewrite IH.
  Qed.
  Lemma lookup_replace_some k k2 (v : V) l :
    lookup keq k2 (replace keq k v l) <> None <-> lookup keq k2 l <> None.
  Proof.
    induction l as [|[k' v'] r IH]; cbn; [tauto|].
    destruct (keq k k') eqn:E; cbn.
    - destruct (keq k2 k'); [split; congruence | tauto].
    - destruct (keq k2 k'); [split; congruence | exact IH].
  Qed.
End AssocLemmas.

(* ------------------------------------------------------------------ positions *)
Lemma length_upd {A} (l : list A) i f : length (upd l i f) = length l.
Proof. revert i; induction l as [|x r IH]; intros [|i]; cbn; auto. Qed.
Lemma nth_error_upd_eq {A} (l : list A) i f :
  nth_error (upd l i f) i = option_map f (nth_error l i).
Proof. revert i; induction l as [|x r IH]; intros [|i]; cbn; auto. Qed.
Lemma nth_error_upd_neq {A} (l : list A) i j f :
  i <> j -> nth_error (upd l i f) j = nth_error l j.
Proof.
  revert i j; induction l as [|x r IH]; intros [|i] [|j] H; cbn; auto; try congruence.
Qed.
Lemma upd_id {A} (l : list A) i f :
  (forall x, nth_error l i = Some x -> f x = x) -> upd l i f = l.
Proof.
  revert i; induction l as [|x r IH]; intros [|i] H; cbn; auto.
  - now rewrite (H x eq_refl).
  - f_equal. apply IH. exact H.
Qed.
Lemma upd_upd {A} (l : list A) i f g : upd (upd l i f) i g = upd l i (fun x => g (f x)).
Proof. revert i; induction l as [|x r IH]; intros [|i]; cbn; auto. now rewrite IH. Qed.

Lemma nthN_lt {A} (l : list A) i x : nthN l i = Some x -> i < lenN l.
Proof.
  unfold nthN, lenN. intros H.
  assert (N.to_nat i < length l)%nat by (apply nth_error_Some; congruence). lia.
Qed.
Lemma nthN_some {A} (l : list A) i : i < lenN l -> exists x, nthN l i = Some x.
Proof.
  unfold nthN, lenN. intros H.
  destruct (nth_error l (N.to_nat i)) eqn:E; [eauto|].
  apply nth_error_None in E. lia.
Qed.
Lemma nthN_none {A} (l : list A) i : nthN l i = None -> lenN l <= i.
Proof. unfold nthN, lenN. intros H. apply nth_error_None in H. lia. Qed.
Lemma lenN_app1 {A} (l : list A) x : lenN (l ++ [x]) = lenN l + 1.
Proof. unfold lenN. rewrite app_length. cbn. lia. Qed.
Lemma nthN_updN_eq {A} (l : list A) i f : nthN (updN l i f) i = option_map f (nthN l i).
Proof. apply nth_error_upd_eq. Qed.
Lemma nthN_updN_neq {A} (l : list A) i j f : i <> j -> nthN (updN l i f) j = nthN l j.
Proof. intros H. apply nth_error_upd_neq. lia. Qed.
Lemma lenN_updN {A} (l : list A) i f : lenN (updN l i f) = lenN l.
Proof. unfold lenN, updN. now rewrite length_upd. Qed.
Lemma nthN_app_old {A} (l : list A) x i : i < lenN l -> nthN (l ++ [x]) i = nthN l i.
Proof. unfold nthN, lenN. intros H. apply nth_error_app1. lia. Qed.
Lemma nthN_app_new {A} (l : list A) x : nthN (l ++ [x]) (lenN l) = Some x.
Proof.
  unfold nthN, lenN. rewrite Nat2N.id, nth_error_app2 by lia. now rewrite Nat.sub_diag.
Qed.
Lemma nthN_of_nat {A} (l : list A) i : nth_error l i = nthN l (N.of_nat i).
Proof. unfold nthN. now rewrite Nat2N.id. Qed.

(* ------------------------------------------------------------------ the invariant *)
Definition node_wf (s : state) (g : gid) (j : nat) (nd : node) : Prop :=
  n_id nd = N.of_nat j /\
  forallb (node_dep_ok g (n_id nd)) (n_deps nd) = true /\
  forallb (graph_dep_ok s g) (n_gdeps nd) = true.
Definition graph_wf (s : state) (i : nat) (gr : graph) : Prop :=
  g_id gr = N.of_nat i /\
  (forall j nd, nth_error (g_nodes gr) j = Some nd -> node_wf s (g_id gr) j nd) /\
  (forall o, g_out gr = Some o -> o < lenN (g_nodes gr)) /\
  (g_fin gr = true -> g_out gr <> None).
(* ids dense and in creation order; dependencies precede their user in the same graph and
   context; called graphs are finalized, older, same context; output exists *)
Definition WFG (s : state) : Prop :=
  forall i gr, nth_error (graphs s) i = Some gr -> graph_wf s i gr.
(* main graph is a finalized graph of the context; a finalized context is completely finalized *)
Definition WFM (s : state) : Prop :=
  (forall g, main s = Some g -> graph_finalized s g = true) /\
  (ctx_fin s = true -> forallb g_fin (graphs s) = true /\ main s <> None).
(* name tables are mutually inverse (hence injective) and, like the annotation tables and the
   type cache, only mention existing graphs and nodes *)
Definition WFT (s : state) : Prop :=
  (forall g nm, lookup N.eqb g (gnames s) = Some nm ->
                lookup String.eqb nm (gnames_inv s) = Some g /\ g < lenN (graphs s)) /\
  (forall g nm, lookup String.eqb nm (gnames_inv s) = Some g -> lookup N.eqb g (gnames s) = Some nm) /\
  (forall g n nm, lookup keq2 (g, n) (nnames s) = Some nm ->
                  lookup keqs (g, nm) (nnames_inv s) = Some n /\ n < ncount s g) /\
  (forall g n nm, lookup keqs (g, nm) (nnames_inv s) = Some n -> lookup keq2 (g, n) (nnames s) = Some nm) /\
  (forall g n l, lookup keq2 (g, n) (nannots s) = Some l -> n < ncount s g) /\
  (forall g l, lookup N.eqb g (gannots s) = Some l -> g < lenN (graphs s)) /\
  (forall g n t, lookup keq2 (g, n) (types s) = Some t -> n < ncount s g).
(* every stored node has a cached type *)
Definition Typed (s : state) : Prop :=
  forall g n, n < ncount s g -> lookup keq2 (g, n) (types s) <> None.

Definition WF (s : state) : Prop := WFG s /\ WFM s /\ WFT s.
Definition Inv (s : state) : Prop := WF s /\ Typed s.

(* ------------------------------------------------------------------ monotonicity *)
Definition fin_mono (s s' : state) : Prop :=
  forall h, graph_finalized s h = true -> graph_finalized s' h = true.
Definition ext (s s' : state) : Prop :=
  lenN (graphs s) <= lenN (graphs s') /\ forall g, ncount s g <= ncount s' g.
Definition tables_eq (s s' : state) : Prop :=
  gnames s' = gnames s /\ gnames_inv s' = gnames_inv s /\ nnames s' = nnames s /\
  nnames_inv s' = nnames_inv s /\ nannots s' = nannots s /\ gannots s' = gannots s /\
  types s' = types s.

Lemma graph_dep_ok_mono s s' g d : fin_mono s s' -> graph_dep_ok s g d = true -> graph_dep_ok s' g d = true.
Proof.
  intros Hm. destruct d as [c dg]; cbn. rewrite !andb_true_iff. intros [[H1 H2] H3].
  rewrite (Hm _ H1). auto.
Qed.
Lemma forallb_impl {A} (p q : A -> bool) l :
  (forall x, p x = true -> q x = true) -> forallb p l = true -> forallb q l = true.
Proof. intros H. rewrite !forallb_forall. auto. Qed.
Lemma graph_wf_mono s s' i gr : fin_mono s s' -> graph_wf s i gr -> graph_wf s' i gr.
Proof.
  intros Hm (H1 & H2 & H3 & H4). split; [exact H1|]. split; [|split; assumption].
  intros j nd H. destruct (H2 j nd H) as (A & B & C). split; [exact A|]. split; [exact B|].
  revert C. apply forallb_impl. intros x. now apply graph_dep_ok_mono.
Qed.
Lemma WFT_ext s s' : ext s s' -> tables_eq s s' -> WFT s -> WFT s'.
Proof.
  intros [He1 He2] (E1 & E2 & E3 & E4 & E5 & E6 & E7) (H1 & H2 & H3 & H4 & H5 & H6 & H7).
  unfold WFT. rewrite E1, E2, E3, E4, E5, E6, E7.
  split; [|split; [|split; [|split; [|split; [|split]]]]].
  - intros g nm H. destruct (H1 g nm H). split; [assumption|lia].
  - exact H2.
  - intros g n nm H. destruct (H3 g n nm H). split; [assumption|]. specialize (He2 g). lia.
  - exact H4.
  - intros g n l H. apply H5 in H. specialize (He2 g). lia.
  - intros g l H. apply H6 in H. lia.
  - intros g n t H. apply H7 in H. specialize (He2 g). lia.
Qed.

(* ------------------------------------------------------------------ updating one graph *)
Lemma ncount_upd s g f h :
  ncount (upd_graph s g f) h =
  if h =? g then match nthN (graphs s) g with Some gr => lenN (g_nodes (f gr)) | None => 0 end
  else ncount s h.
Proof.
  unfold ncount, upd_graph, set_graphs; cbn [graphs].
  destruct (N.eqb_spec h g) as [->|Hn].
  - rewrite nthN_updN_eq. destruct (nthN (graphs s) g); reflexivity.
  - rewrite nthN_updN_neq by congruence. reflexivity.
Qed.
Lemma gfin_upd s g f h :
  graph_finalized (upd_graph s g f) h =
  if h =? g then match nthN (graphs s) g with Some gr => g_fin (f gr) | None => false end
  else graph_finalized s h.
Proof.
  unfold graph_finalized, upd_graph, set_graphs; cbn [graphs].
  destruct (N.eqb_spec h g) as [->|Hn].
  - rewrite nthN_updN_eq. destruct (nthN (graphs s) g); reflexivity.
  - rewrite nthN_updN_neq by congruence. reflexivity.
Qed.
Lemma fin_mono_upd s g f :
  (forall gr, g_fin gr = true -> g_fin (f gr) = true) -> fin_mono s (upd_graph s g f).
Proof.
  intros Hf h. rewrite gfin_upd. destruct (N.eqb_spec h g) as [->|Hn]; auto.
  unfold graph_finalized. destruct (nthN (graphs s) g); auto.
Qed.
Lemma ext_upd s g f :
  (forall gr, lenN (g_nodes gr) <= lenN (g_nodes (f gr))) -> ext s (upd_graph s g f).
Proof.
  intros Hf. split.
  - unfold upd_graph, set_graphs; cbn [graphs]. rewrite lenN_updN. lia.
  - intros h. rewrite ncount_upd. destruct (N.eqb_spec h g) as [->|Hn]; [|lia].
    unfold ncount. destruct (nthN (graphs s) g); [apply Hf | lia].
Qed.
Lemma tables_eq_upd s g f : tables_eq s (upd_graph s g f).
Proof. repeat split. Qed.
Lemma WFG_upd s g f gr :
  WFG s -> nthN (graphs s) g = Some gr ->
  fin_mono s (upd_graph s g f) ->
  graph_wf (upd_graph s g f) (N.to_nat g) (f gr) ->
  WFG (upd_graph s g f).
Proof.
  intros Hw Hg Hm Hf i gr' H. unfold upd_graph, set_graphs, updN in H; cbn [graphs] in H.
  destruct (Nat.eq_dec (N.to_nat g) i) as [<-|Hn].
  - rewrite nth_error_upd_eq in H. unfold nthN in Hg. rewrite Hg in H. cbn in H.
    injection H as <-. exact Hf.
  - rewrite nth_error_upd_neq in H by exact Hn. eapply graph_wf_mono; eauto.
Qed.
Lemma WFM_upd s g f :
  (forall gr, g_fin gr = true -> g_fin (f gr) = true) -> WFM s -> WFM (upd_graph s g f).
Proof.
  intros Hf [H1 H2]. split.
  - intros h Hh. apply (fin_mono_upd s g f Hf). apply H1. exact Hh.
  - intros Hc. destruct (H2 Hc) as [Ha Hb]. split; [|exact Hb].
    unfold upd_graph, set_graphs, updN; cbn [graphs].
    rewrite forallb_forall in *. intros x Hx.
    apply In_nth_error in Hx. destruct Hx as [i Hi].
    destruct (Nat.eq_dec (N.to_nat g) i) as [<-|Hn].
    + rewrite nth_error_upd_eq in Hi. destruct (nth_error (graphs s) (N.to_nat g)) eqn:E; [|discriminate].
      cbn in Hi. injection Hi as <-. apply Hf, Ha. eapply nth_error_In; eauto.
    + rewrite nth_error_upd_neq in Hi by exact Hn. apply Ha. eapply nth_error_In; eauto.
Qed.

Lemma ctx_not_fin s g gr : WFM s -> nthN (graphs s) g = Some gr -> g_fin gr = false -> ctx_fin s = false.
Proof.
  intros [_ H2] Hg Hf. destruct (ctx_fin s) eqn:E; [|reflexivity].
  destruct (H2 eq_refl) as [Ha _]. rewrite forallb_forall in Ha.
  rewrite (Ha gr) in Hf; [discriminate|]. eapply nth_error_In; exact Hg.
Qed.

(* ------------------------------------------------------------------ rollback *)
Lemma state_eta s :
  mkState (graphs s) (main s) (ctx_fin s) (gnames s) (gnames_inv s) (nnames s) (nnames_inv s)
          (nannots s) (gannots s) (types s) (total s) = s.
Proof. destruct s; reflexivity. Qed.

Lemma push_pop (gs : list graph) g nd :
  updN (updN gs g (fun gr => mkGraph (g_id gr) (g_fin gr) (g_nodes gr ++ [nd]) (g_out gr))) g
       (fun gr => mkGraph (g_id gr) (g_fin gr) (removelast (g_nodes gr)) (g_out gr)) = gs.
Proof.
  unfold updN. rewrite upd_upd. apply upd_id. intros [i f ns o] _. cbn.
  now rewrite removelast_last.
Qed.

Lemma rollback_gen s2 s g id e :
  main s2 = main s -> ctx_fin s2 = false -> ctx_fin s = false ->
  gnames s2 = gnames s -> gnames_inv s2 = gnames_inv s ->
  nnames s2 = nnames s -> nnames_inv s2 = nnames_inv s -> nannots s2 = nannots s ->
  gannots s2 = gannots s -> total s2 = total s ->
  lookup keq2 (g, id) (nnames s) = None -> lookup keq2 (g, id) (nannots s) = None ->
  remove keq2 (g, id) (types s2) = types s ->
  updN (graphs s2) g (fun gr => mkGraph (g_id gr) (g_fin gr) (removelast (g_nodes gr)) (g_out gr)) = graphs s ->
  rollback s2 g id e = (s, OErr e).
Proof.
  destruct s2, s; cbn -[remove lookup updN].
  intros -> -> -> -> -> -> -> -> -> -> N1 N2 Hty Hg.
  unfold rollback, remove_last_node, unregister_node; cbn -[remove lookup updN].
  rewrite N1. cbn -[remove lookup updN].
  rewrite (remove_absent keq2 _ _ N1), (remove_absent keq2 _ _ N2), Hty.
  unfold upd_graph, set_graphs; cbn -[remove lookup updN]. rewrite Hg. reflexivity.
Qed.

Lemma rollback_exact s g gr op deps gdeps e (ty : option N) :
  WFM s -> WFT s -> nthN (graphs s) g = Some gr -> g_fin gr = false ->
  let id := lenN (g_nodes gr) in
  let s1 := push_node s g (mkNode id op deps gdeps) in
  let s2 := match ty with Some t => register_result s1 (g, id) t | None => s1 end in
  rollback s2 g id e = (s, OErr e).
Proof.
  intros Hm Ht Hg Hf id s1 s2.
  pose proof (ctx_not_fin _ _ _ Hm Hg Hf) as Hc.
  destruct Ht as (_ & _ & T3 & _ & T5 & _ & T7).
  assert (Hn : ncount s g = id) by (unfold ncount; now rewrite Hg).
  assert (N1 : lookup keq2 (g, id) (nnames s) = None).
  { destruct (lookup keq2 (g, id) (nnames s)) eqn:E; [|reflexivity]. apply T3 in E. lia. }
  assert (N2 : lookup keq2 (g, id) (nannots s) = None).
  { destruct (lookup keq2 (g, id) (nannots s)) eqn:E; [|reflexivity]. apply T5 in E. lia. }
  assert (N3 : lookup keq2 (g, id) (types s) = None).
  { destruct (lookup keq2 (g, id) (types s)) eqn:E; [|reflexivity]. apply T7 in E. lia. }
  assert (Hty : remove keq2 (g, id) (types s2) = types s).
  { subst s2. destruct ty as [t|].
    - unfold register_result. subst s1. cbn [types push_node upd_graph set_graphs]. rewrite N3.
      cbn [types set_types]. rewrite (remove_cons_eq keq2 keq2_spec). now apply remove_absent.
    - subst s1. cbn [types push_node upd_graph set_graphs]. now apply remove_absent. }
  assert (Hrest : graphs s2 = graphs s1 /\ main s2 = main s /\ ctx_fin s2 = ctx_fin s /\
                  gnames s2 = gnames s /\ gnames_inv s2 = gnames_inv s /\ nnames s2 = nnames s /\
                  nnames_inv s2 = nnames_inv s /\ nannots s2 = nannots s /\ gannots s2 = gannots s /\
                  total s2 = total s).
  { subst s2. destruct ty as [t|]; [unfold register_result; destruct (lookup keq2 (g, id) (types s1))|];
      subst s1; repeat split. }
  destruct Hrest as (R1 & R2 & R3 & R4 & R5 & R6 & R7 & R8 & R9 & R10).
  apply rollback_gen; try congruence.
  - rewrite R1. subst s1. cbn [push_node upd_graph set_graphs graphs]. apply push_pop.
Qed.

Lemma rollback_push s g gr op deps gdeps e :
  WFM s -> WFT s -> nthN (graphs s) g = Some gr -> g_fin gr = false ->
  rollback (push_node s g (mkNode (lenN (g_nodes gr)) op deps gdeps)) g (lenN (g_nodes gr)) e
  = (s, OErr e).
Proof. intros Hm Ht Hg Hf. exact (rollback_exact s g gr op deps gdeps e None Hm Ht Hg Hf). Qed.
Lemma rollback_reg s g gr op deps gdeps e t :
  WFM s -> WFT s -> nthN (graphs s) g = Some gr -> g_fin gr = false ->
  rollback (register_result (push_node s g (mkNode (lenN (g_nodes gr)) op deps gdeps))
                            (g, lenN (g_nodes gr)) t) g (lenN (g_nodes gr)) e
  = (s, OErr e).
Proof. intros Hm Ht Hg Hf. exact (rollback_exact s g gr op deps gdeps e (Some t) Hm Ht Hg Hf). Qed.

(* ------------------------------------------------------------------ per-call verdict *)
Definition good (s : state) (r : state * outcome) : Prop :=
  WF (fst r) /\ (Typed s -> Typed (fst r)) /\ (forall e, snd r = OErr e -> fst r = s).
Lemma good_same s o : WF s -> good s (s, o).
Proof. intros H. split; [exact H|]. split; [auto|reflexivity]. Qed.
Lemma good_ok s s' v : WF s' -> (Typed s -> Typed s') -> good s (s', OOk v).
Proof. intros H1 H2. split; [exact H1|]. split; [exact H2|]. cbn. discriminate. Qed.

Lemma fin_mono_graphs_eq s s' : graphs s' = graphs s -> fin_mono s s'.
Proof. intros E h. unfold graph_finalized. now rewrite E. Qed.
Lemma WFG_graphs_eq s s' : graphs s' = graphs s -> WFG s -> WFG s'.
Proof.
  intros E H i gr Hi. rewrite E in Hi. eapply graph_wf_mono; [apply fin_mono_graphs_eq, E|]. auto.
Qed.
Lemma WFM_eq s s' :
  graphs s' = graphs s -> main s' = main s -> ctx_fin s' = ctx_fin s -> WFM s -> WFM s'.
Proof.
  intros E1 E2 E3 [H1 H2]. unfold WFM, graph_finalized. rewrite E1, E2, E3. exact (conj H1 H2).
Qed.
Lemma ncount_graphs_eq s s' h : graphs s' = graphs s -> ncount s' h = ncount s h.
Proof. intros E. unfold ncount. now rewrite E. Qed.

(* ---- create_graph ---- *)
Lemma ncount_app s gr h :
  ncount (set_graphs s (graphs s ++ [gr])) h =
  if h <? lenN (graphs s) then ncount s h
  else if h =? lenN (graphs s) then lenN (g_nodes gr) else 0.
Proof.
  unfold ncount, set_graphs; cbn [graphs].
  destruct (N.ltb_spec h (lenN (graphs s))) as [Hl|Hl].
  - now rewrite nthN_app_old.
  - destruct (N.eqb_spec h (lenN (graphs s))) as [->|Hn].
    + now rewrite nthN_app_new.
    + destruct (nthN (graphs s ++ [gr]) h) eqn:E; [|reflexivity].
      apply nthN_lt in E. rewrite lenN_app1 in E. lia.
Qed.
Lemma ncount_out s h : lenN (graphs s) <= h -> ncount s h = 0.
Proof.
  intros H. unfold ncount. destruct (nthN (graphs s) h) eqn:E; [|reflexivity].
  apply nthN_lt in E. lia.
Qed.
Lemma gfin_lt s h : graph_finalized s h = true -> h < lenN (graphs s).
Proof.
  unfold graph_finalized. destruct (nthN (graphs s) h) eqn:E; [|discriminate].
  intros _. eapply nthN_lt; eauto.
Qed.
Lemma fin_mono_app s gr : fin_mono s (set_graphs s (graphs s ++ [gr])).
Proof.
  intros h H. pose proof (gfin_lt _ _ H) as Hl. revert H.
  unfold graph_finalized, set_graphs; cbn [graphs]. now rewrite nthN_app_old.
Qed.

Lemma create_graph_good s : WF s -> good s (create_graph s).
Proof.
  intros Hwf. pose proof Hwf as (Hg & Hm & Ht). unfold create_graph.
  destruct (ctx_fin s) eqn:Hc; [apply good_same; exact Hwf|].
  set (new := mkGraph (lenN (graphs s)) false [] None).
  apply good_ok.
  - split; [|split].
    + intros i gr Hi. cbn [set_graphs graphs] in Hi.
      destruct (Nat.lt_ge_cases i (length (graphs s))) as [Hl|Hl].
      * rewrite nth_error_app1 in Hi by exact Hl.
        eapply graph_wf_mono; [apply fin_mono_app|]. auto.
      * assert (i = length (graphs s)).
        { assert (i < length (graphs s ++ [new]))%nat by (apply nth_error_Some; congruence).
          rewrite app_length in H; cbn in H. lia. }
        subst i. rewrite nth_error_app2, Nat.sub_diag in Hi by lia. injection Hi as <-.
        split; [reflexivity|]. split; [intros [|j] nd; discriminate|].
        split; [discriminate|discriminate].
    + destruct Hm as [H1 H2]. split.
      * intros h Hh. apply fin_mono_app. apply H1. exact Hh.
      * cbn [set_graphs ctx_fin]. rewrite Hc. discriminate.
    + eapply WFT_ext; [| |exact Ht].
      * split; [cbn [set_graphs graphs]; rewrite lenN_app1; lia|].
        intros h. rewrite ncount_app.
        destruct (N.ltb_spec h (lenN (graphs s))); [lia|]. rewrite ncount_out by lia. lia.
      * repeat split.
  - intros Hty h n Hn. rewrite ncount_app in Hn. cbn [set_graphs types].
    destruct (N.ltb_spec h (lenN (graphs s))); [now apply Hty|].
    destruct (h =? lenN (graphs s)); cbn in Hn; lia.
Qed.

(* ---- add_node ---- *)
Lemma set_total_id s : set_total s (total s) = s.
Proof. destruct s; reflexivity. Qed.

Lemma add_node_spec s g op deps gdeps sup ans :
  WFM s -> WFT s ->
  let r := add_node s g op deps gdeps sup ans in
  (fst r = s /\ exists e, snd r = OErr e) \/
  (exists gr t tot, nthN (graphs s) g = Some gr /\ g_fin gr = false /\
     forallb (node_dep_ok g (lenN (g_nodes gr))) deps = true /\
     forallb (graph_dep_ok s g) gdeps = true /\
     snd r = OOk (RId (lenN (g_nodes gr))) /\
     fst r = set_total (set_types (push_node s g (mkNode (lenN (g_nodes gr)) op deps gdeps))
                                  (((g, lenN (g_nodes gr)), t) :: types s)) tot).
Proof.
  intros Hm Ht r. subst r. unfold add_node.
  destruct (nthN (graphs s) g) as [gr|] eqn:Hg; [|left; split; [reflexivity|eexists; reflexivity]].
  destruct (g_fin gr) eqn:Hf; [left; split; [reflexivity|eexists; reflexivity]|].
  destruct (forallb (node_dep_ok g (lenN (g_nodes gr))) deps) eqn:Hd; cbn [negb];
    [|left; split; [reflexivity|eexists; reflexivity]].
  destruct (forallb (graph_dep_ok s g) gdeps) eqn:Hgd; cbn [negb];
    [|left; split; [reflexivity|eexists; reflexivity]].
  set (id := lenN (g_nodes gr)).
  set (s1 := push_node s g (mkNode id op deps gdeps)).
  assert (N3 : lookup keq2 (g, id) (types s) = None).
  { destruct Ht as (_ & _ & _ & _ & _ & _ & T7).
    destruct (lookup keq2 (g, id) (types s)) eqn:E; [|reflexivity]. apply T7 in E.
    unfold ncount in E. rewrite Hg in E. subst id. lia. }
  assert (Hreg : forall t, register_result s1 (g, id) t = set_types s1 (((g, id), t) :: types s)).
  { intros t. unfold register_result. subst s1. cbn [push_node upd_graph set_graphs types].
    now rewrite N3. }
  assert (Hsize : forall t,
    let r := match a_sz ans with
      | None => rollback (register_result s1 (g, id) t) g id E_size_invalid
      | Some sz =>
          if MAX_INDIVIDUAL_NODE_SIZE <? sz then rollback (register_result s1 (g, id) t) g id E_size_big else
          match a_in ans with
          | None => (register_result s1 (g, id) t, OOk (RId id))
          | Some None => rollback (register_result s1 (g, id) t) g id E_total
          | Some (Some isz) =>
              if MAX_TOTAL_SIZE_NODES <? total (register_result s1 (g, id) t) + isz
              then rollback (register_result s1 (g, id) t) g id E_total
              else (set_total (register_result s1 (g, id) t) (total (register_result s1 (g, id) t) + isz), OOk (RId id))
          end
      end in
    (fst r = s /\ exists e, snd r = OErr e) \/
    (snd r = OOk (RId id) /\ exists tot, fst r = set_total (set_types s1 (((g, id), t) :: types s)) tot)).
  { intros t.
    assert (RB : forall e, rollback (register_result s1 (g, id) t) g id e = (s, OErr e))
      by (intros e; apply rollback_reg; assumption).
    destruct (a_sz ans) as [sz|]; [|left; rewrite RB; split; [reflexivity|eexists; reflexivity]].
    destruct (MAX_INDIVIDUAL_NODE_SIZE <? sz); [left; rewrite RB; split; [reflexivity|eexists; reflexivity]|].
    destruct (a_in ans) as [[isz|]|].
    - destruct (MAX_TOTAL_SIZE_NODES <? _); [left; rewrite RB; split; [reflexivity|eexists; reflexivity]|].
      right. split; [reflexivity|]. rewrite Hreg. eexists; reflexivity.
    - left; rewrite RB; split; [reflexivity|eexists; reflexivity].
    - right. split; [reflexivity|]. exists (total (register_result s1 (g, id) t)).
      cbn [fst]. rewrite !Hreg. symmetry. apply set_total_id. }
  assert (RP : forall e, rollback s1 g id e = (s, OErr e))
    by (intros e; apply rollback_push; assumption).
  destruct sup as [[valid t]|].
  - destruct valid.
    + destruct (Hsize t) as [H|[H1 [tot H2]]]; [left; exact H|].
      right. exists gr, t, tot. repeat split; assumption.
    + left. rewrite RP. split; [reflexivity|eexists; reflexivity].
  - destruct (a_ty ans) as [t|].
    + destruct (Hsize t) as [H|[H1 [tot H2]]]; [left; exact H|].
      right. exists gr, t, tot. repeat split; assumption.
    + left. rewrite RP. split; [reflexivity|eexists; reflexivity].
Qed.

Lemma graph_id_at s g gr : WFG s -> nthN (graphs s) g = Some gr -> g_id gr = g.
Proof.
  intros H Hg. destruct (H _ _ Hg) as (E & _). rewrite E. apply N2Nat.id.
Qed.

Lemma WFT_add_type s g n t tot :
  WFT s -> n < ncount s g -> WFT (set_total (set_types s (((g, n), t) :: types s)) tot).
Proof.
  intros (H1 & H2 & H3 & H4 & H5 & H6 & H7) Hn.
  split; [exact H1|]. split; [exact H2|]. split; [exact H3|]. split; [exact H4|].
  split; [exact H5|]. split; [exact H6|].
  intros g' n' t'. cbn [set_total set_types types].
  rewrite lookup_cons. destruct (keq2 (g', n') (g, n)) eqn:E.
  - apply keq2_spec in E. injection E as -> ->. intros _. exact Hn.
  - apply H7.
Qed.

Lemma add_node_good s g op deps gdeps sup ans : WF s -> good s (add_node s g op deps gdeps sup ans).
Proof.
  intros Hwf. pose proof Hwf as (Hg & Hm & Ht).
  destruct (add_node_spec s g op deps gdeps sup ans Hm Ht) as [[E1 [e E2]]|(gr & t & tot & Hgr & Hf & Hd & Hgd & E2 & E1)].
  - destruct (add_node s g op deps gdeps sup ans) as [s' o]. cbn [fst snd] in *. subst. now apply good_same.
  - destruct (add_node s g op deps gdeps sup ans) as [s' o]. cbn [fst snd] in *. subst o.
    set (id := lenN (g_nodes gr)) in *. set (nd := mkNode id op deps gdeps) in *.
    set (f := fun gr0 => mkGraph (g_id gr0) (g_fin gr0) (g_nodes gr0 ++ [nd]) (g_out gr0)).
    assert (Es1 : push_node s g nd = upd_graph s g f) by reflexivity.
    set (s1 := upd_graph s g f) in *.
    assert (Hgid : g_id gr = g) by (eapply graph_id_at; eauto).
    assert (Hmono : fin_mono s s1) by (apply fin_mono_upd; intros x; exact (fun H => H)).
    assert (Hn1 : forall h, ncount s1 h = if h =? g then id + 1 else ncount s h).
    { intros h. unfold s1. rewrite ncount_upd, Hgr. cbn [f g_nodes]. now rewrite lenN_app1. }
    assert (Hwf1 : WFG s1).
    { eapply WFG_upd; eauto.
      destruct (Hg _ _ Hgr) as (A & B & C & D). unfold graph_wf, f; cbn [g_id g_fin g_nodes g_out].
      split; [exact A|]. split; [|split].
      - intros j x Hj.
        destruct (Nat.lt_ge_cases j (length (g_nodes gr))) as [Hl|Hl].
        + rewrite nth_error_app1 in Hj by exact Hl. destruct (B _ _ Hj) as (B1 & B2 & B3).
          split; [exact B1|]. split; [exact B2|].
          revert B3. apply forallb_impl. intros y. now apply graph_dep_ok_mono.
        + assert (j = length (g_nodes gr)).
          { assert (j < length (g_nodes gr ++ [nd]))%nat by (apply nth_error_Some; congruence).
            rewrite app_length in H; cbn in H. lia. }
          subst j. rewrite nth_error_app2, Nat.sub_diag in Hj by lia. injection Hj as <-.
          rewrite Hgid. split; [reflexivity|]. split; [exact Hd|].
          revert Hgd. apply forallb_impl. intros y. now apply graph_dep_ok_mono.
      - intros o Ho. apply C in Ho. rewrite lenN_app1. lia.
      - exact D. }
    subst s'. apply good_ok.
    + split; [|split].
      * eapply WFG_graphs_eq; [|exact Hwf1]. reflexivity.
      * apply (WFM_eq s1);
          [unfold s1, push_node, upd_graph, set_graphs, set_total, set_types; cbn [graphs main ctx_fin]; reflexivity ..|].
        exact (WFM_upd s g f (fun x H => H) Hm).
      * rewrite Es1. change (types s) with (types s1). apply WFT_add_type.
        -- eapply WFT_ext; [|apply tables_eq_upd|exact Ht].
           apply ext_upd. intros x. unfold f; cbn. rewrite lenN_app1. lia.
        -- rewrite Hn1, N.eqb_refl. lia.
    + intros Hty h n Hn. rewrite Es1 in *.
      change (ncount (set_total (set_types s1 (((g, id), t) :: types s)) tot) h) with (ncount s1 h) in Hn.
      rewrite Hn1 in Hn. cbn [set_total set_types types]. rewrite lookup_cons.
      destruct (keq2 (h, n) (g, id)) eqn:E; [discriminate|].
      apply Hty. destruct (N.eqb_spec h g) as [->|Hne]; [|exact Hn].
      assert (n <> id).
      { intros ->. rewrite (proj2 (keq2_spec (g, id) (g, id)) eq_refl) in E. discriminate. }
      unfold ncount. rewrite Hgr. fold id. lia.
Qed.

(* ---- set_output_node ---- *)
Lemma nh_ok_own s h : nh_ok s h = true -> nh_own h = true -> nh_nid h < ncount s (nh_gid h).
Proof.
  destruct h as [c g n]; cbn. intros H1 H2. rewrite H2 in H1. cbn in H1.
  unfold node_exists in H1. now apply N.ltb_lt in H1.
Qed.
Lemma gh_ok_own s h : gh_ok s h = true -> gh_own h = true -> gh_id h < lenN (graphs s).
Proof.
  destruct h as [c g]; cbn. intros H1 H2. rewrite H2 in H1. cbn in H1.
  unfold graph_exists in H1. destruct (nthN (graphs s) g) eqn:E; [|discriminate].
  eapply nthN_lt; eauto.
Qed.

Lemma upd_graph_good s g gr f v :
  WF s -> nthN (graphs s) g = Some gr ->
  (forall x, g_id (f x) = g_id x) -> (forall x, g_nodes (f x) = g_nodes x) ->
  (forall x, g_fin x = true -> g_fin (f x) = true) ->
  (forall o, g_out (f gr) = Some o -> o < lenN (g_nodes gr)) ->
  (g_fin (f gr) = true -> g_out (f gr) <> None) ->
  good s (upd_graph s g f, OOk v).
Proof.
  intros (Hg & Hm & Ht) Hgr Fid Fn Ff Fo Ffo.
  assert (Hmono : fin_mono s (upd_graph s g f)) by (apply fin_mono_upd; exact Ff).
  assert (Hn1 : forall h, ncount (upd_graph s g f) h = ncount s h).
  { intros h. rewrite ncount_upd, Hgr, Fn. destruct (N.eqb_spec h g) as [->|]; [|reflexivity].
    unfold ncount. now rewrite Hgr. }
  apply good_ok.
  - split; [|split].
    + eapply WFG_upd; eauto. destruct (Hg _ _ Hgr) as (A & B & C & D).
      split; [now rewrite Fid|]. split; [|split].
      * rewrite Fn, Fid. intros j x Hj. destruct (B _ _ Hj) as (B1 & B2 & B3).
        split; [exact B1|]. split; [exact B2|].
        revert B3. apply forallb_impl. intros y. now apply graph_dep_ok_mono.
      * rewrite Fn. exact Fo.
      * exact Ffo.
    + apply WFM_upd; assumption.
    + eapply WFT_ext; [|apply tables_eq_upd|exact Ht].
      apply ext_upd. intros x. rewrite Fn. lia.
  - intros Hty h n Hn. rewrite Hn1 in Hn. apply Hty. exact Hn.
Qed.

Lemma set_output_good s g n : WF s -> good s (set_output s g n).
Proof.
  intros Hwf. unfold set_output.
  destruct (nthN (graphs s) g) as [gr|] eqn:Hgr; [|now apply good_same].
  destruct (nh_ok s n) eqn:Hok; cbn [negb]; [|now apply good_same].
  destruct (g_out gr) eqn:Ho; [now apply good_same|].
  destruct (nh_own n && (nh_gid n =? g)) eqn:Hown; cbn [negb]; [|now apply good_same].
  apply andb_true_iff in Hown as [Hown Hgid]. apply N.eqb_eq in Hgid.
  eapply upd_graph_good; eauto; cbn [g_id g_nodes g_fin g_out]; auto.
  - intros o [= <-]. pose proof (nh_ok_own _ _ Hok Hown) as H. rewrite Hgid in H.
    unfold ncount in H. now rewrite Hgr in H.
  - discriminate.
Qed.

(* ---- Graph::finalize ---- *)
Lemma finalize_graph_good s g : WF s -> good s (finalize_graph s g).
Proof.
  intros Hwf. unfold finalize_graph.
  destruct (nthN (graphs s) g) as [gr|] eqn:Hgr; [|now apply good_same].
  destruct (g_out gr) as [o|] eqn:Ho; [|now apply good_same].
  pose proof Hwf as (Hg & _).
  eapply upd_graph_good; eauto; cbn [g_id g_nodes g_fin g_out]; auto.
  - intros o' Ho'. destruct (Hg _ _ Hgr) as (_ & _ & C & _). apply C. congruence.
  - rewrite Ho. discriminate.
Qed.

(* ---- set_main_graph ---- *)
Lemma set_main_good s h : WF s -> good s (set_main s h).
Proof.
  intros Hwf. pose proof Hwf as (Hg & Hm & Ht). unfold set_main.
  destruct (gh_ok s h) eqn:Hok; cbn [negb]; [|now apply good_same].
  destruct (main s) eqn:Hmain; [now apply good_same|].
  destruct (gh_own h) eqn:Hown; cbn [negb]; [|now apply good_same].
  destruct (graph_finalized s (gh_id h)) eqn:Hfin; cbn [negb]; [|now apply good_same].
  apply good_ok.
  - split; [|split].
    + eapply WFG_graphs_eq; [|exact Hg]. reflexivity.
    + destruct Hm as [H1 H2]. split.
      * cbn [main]. intros g' [= <-]. exact Hfin.
      * cbn [ctx_fin]. intros Hc. destruct (H2 Hc) as [_ Hn]. congruence.
    + eapply WFT_ext; [| |exact Ht]; [split; [reflexivity|intros; reflexivity]|repeat split].
  - intros Hty. exact Hty.
Qed.

(* ---- Context::finalize ---- *)
Lemma finalize_ctx_good s : WF s -> good s (finalize_ctx s).
Proof.
  intros Hwf. pose proof Hwf as (Hg & Hm & Ht). unfold finalize_ctx.
  destruct (forallb g_fin (graphs s)) eqn:Hall; cbn [negb]; [|now apply good_same].
  destruct (main s) eqn:Hmain; [|now apply good_same].
  apply good_ok.
  - split; [|split].
    + eapply WFG_graphs_eq; [|exact Hg]. reflexivity.
    + destruct Hm as [H1 H2]. split.
      * cbn [main]. intros g' Hg'. change (graph_finalized s g' = true). apply H1. congruence.
      * cbn [ctx_fin graphs main]. intros _. split; [exact Hall|congruence].
    + eapply WFT_ext; [| |exact Ht]; [split; [reflexivity|intros; reflexivity]|repeat split].
  - intros Hty. exact Hty.
Qed.

(* ---- names ---- *)
Lemma Neqb_spec a b : N.eqb a b = true <-> a = b.
Proof. apply N.eqb_eq. Qed.
Lemma Seqb_spec a b : String.eqb a b = true <-> a = b.
Proof. apply String.eqb_eq. Qed.

Lemma WFT_same_shape s s' :
  graphs s' = graphs s -> WFT s ->
  gnames s' = gnames s -> gnames_inv s' = gnames_inv s -> nnames s' = nnames s ->
  nnames_inv s' = nnames_inv s -> nannots s' = nannots s -> gannots s' = gannots s ->
  types s' = types s -> WFT s'.
Proof.
  intros E Ht E1 E2 E3 E4 E5 E6 E7. eapply WFT_ext; [| |exact Ht].
  - split; [rewrite E; reflexivity|]. intros g. rewrite (ncount_graphs_eq s s' g E). reflexivity.
  - repeat split; assumption.
Qed.

Lemma set_graph_name_good s h name : WF s -> good s (set_graph_name s h name).
Proof.
  intros Hwf. pose proof Hwf as (Hg & Hm & Ht). unfold set_graph_name.
  destruct (gh_ok s h) eqn:Hok; cbn [negb]; [|now apply good_same].
  destruct (gh_own h) eqn:Hown; cbn [negb]; [|now apply good_same].
  destruct (ctx_fin s) eqn:Hc; [now apply good_same|].
  destruct (lookup N.eqb (gh_id h) (gnames s)) eqn:L1; [now apply good_same|].
  destruct (lookup String.eqb name (gnames_inv s)) eqn:L2; [now apply good_same|].
  pose proof (gh_ok_own _ _ Hok Hown) as Hlt. set (id := gh_id h) in *.
  apply good_ok; [|intros Hty; exact Hty].
  split; [eapply WFG_graphs_eq; [|exact Hg]; reflexivity|].
  split; [apply (WFM_eq s); [reflexivity|reflexivity|cbn [ctx_fin]; congruence|exact Hm]|].
  destruct Ht as (H1 & H2 & H3 & H4 & H5 & H6 & H7).
  split; [|split; [|split; [exact H3|split; [exact H4|split; [exact H5|split; [exact H6|exact H7]]]]]].
  - intros g nm. cbn [gnames gnames_inv graphs]. rewrite !lookup_cons.
    destruct (N.eqb g id) eqn:E1.
    + apply N.eqb_eq in E1. subst g. intros [= <-]. rewrite String.eqb_refl. split; [reflexivity|exact Hlt].
    + intros H. destruct (H1 g nm H) as [A B]. split; [|exact B].
      destruct (String.eqb nm name) eqn:E2; [|exact A].
      apply String.eqb_eq in E2. subst nm. congruence.
  - intros g nm. cbn [gnames gnames_inv]. rewrite !lookup_cons.
    destruct (String.eqb nm name) eqn:E2.
    + apply String.eqb_eq in E2. subst nm. intros [= <-]. now rewrite N.eqb_refl.
    + intros H. pose proof (H2 g nm H) as A.
      destruct (N.eqb g id) eqn:E1; [|exact A].
      apply N.eqb_eq in E1. subst g. congruence.
Qed.

Lemma set_node_name_good s h name : WF s -> good s (set_node_name s h name).
Proof.
  intros Hwf. pose proof Hwf as (Hg & Hm & Ht). unfold set_node_name.
  destruct (nh_ok s h) eqn:Hok; cbn [negb]; [|now apply good_same].
  destruct (nh_own h) eqn:Hown; cbn [negb]; [|now apply good_same].
  destruct (ctx_fin s) eqn:Hc; [now apply good_same|].
  destruct (lookup keq2 (nh_gid h, nh_nid h) (nnames s)) eqn:L1; [now apply good_same|].
  destruct (lookup keqs (nh_gid h, name) (nnames_inv s)) eqn:L2; [now apply good_same|].
  pose proof (nh_ok_own _ _ Hok Hown) as Hlt. set (gi := nh_gid h) in *. set (ni := nh_nid h) in *.
  apply good_ok; [|intros Hty; exact Hty].
  split; [eapply WFG_graphs_eq; [|exact Hg]; reflexivity|].
  split; [apply (WFM_eq s); [reflexivity|reflexivity|cbn [ctx_fin]; congruence|exact Hm]|].
  destruct Ht as (H1 & H2 & H3 & H4 & H5 & H6 & H7).
  split; [exact H1|split; [exact H2|split; [|split; [|split; [exact H5|split; [exact H6|exact H7]]]]]].
  - intros g n nm. cbn [nnames nnames_inv]. rewrite !lookup_cons.
    destruct (keq2 (g, n) (gi, ni)) eqn:E1.
    + apply keq2_spec in E1. injection E1 as -> ->. intros [= <-].
      rewrite (proj2 (keqs_spec (gi, name) (gi, name)) eq_refl). split; [reflexivity|exact Hlt].
    + intros H. destruct (H3 g n nm H) as [A B]. split; [|exact B].
      destruct (keqs (g, nm) (gi, name)) eqn:E2; [|exact A].
      apply keqs_spec in E2. injection E2 as -> ->. congruence.
  - intros g n nm. cbn [nnames nnames_inv]. rewrite !lookup_cons.
    destruct (keqs (g, nm) (gi, name)) eqn:E2.
    + apply keqs_spec in E2. injection E2 as -> ->. intros [= <-].
      now rewrite (proj2 (keq2_spec (gi, ni) (gi, ni)) eq_refl).
    + intros H. pose proof (H4 g n nm H) as A.
      destruct (keq2 (g, n) (gi, ni)) eqn:E1; [|exact A].
      apply keq2_spec in E1. injection E1 as -> ->. congruence.
Qed.

(* ---- annotations ---- *)
Lemma lookup_push_annot {K} (keq : K -> K -> bool) (spec : forall a b, keq a b = true <-> a = b)
      k k' a l v :
  lookup keq k' (push_annot keq k a l) = Some v -> k' = k \/ lookup keq k' l = Some v.
Proof.
  unfold push_annot. destruct (lookup keq k l) eqn:E.
  - destruct (keq k' k) eqn:E1; [left; now apply spec|].
    rewrite (lookup_replace_neq keq spec); [auto|].
    intros ->. rewrite (keq_refl keq spec) in E1. discriminate.
  - rewrite lookup_cons. destruct (keq k' k) eqn:E1; [left; now apply spec|auto].
Qed.

Lemma add_node_annot_good s h a : WF s -> good s (add_node_annot s h a).
Proof.
  intros Hwf. pose proof Hwf as (Hg & Hm & Ht). unfold add_node_annot.
  destruct (nh_ok s h) eqn:Hok; cbn [negb]; [|now apply good_same].
  destruct (nh_own h) eqn:Hown; cbn [negb]; [|now apply good_same].
  destruct (ctx_fin s) eqn:Hc; [now apply good_same|].
  pose proof (nh_ok_own _ _ Hok Hown) as Hlt.
  apply good_ok; [|intros Hty; exact Hty].
  split; [eapply WFG_graphs_eq; [|exact Hg]; reflexivity|].
  split; [apply (WFM_eq s); [reflexivity|reflexivity|cbn [ctx_fin]; congruence|exact Hm]|].
  destruct Ht as (H1 & H2 & H3 & H4 & H5 & H6 & H7).
  split; [exact H1|split; [exact H2|split; [exact H3|split; [exact H4|split; [|split; [exact H6|exact H7]]]]]].
  intros g n l. cbn [nannots]. intros H.
  apply (lookup_push_annot keq2 keq2_spec) in H. destruct H as [[= -> ->]|H]; [exact Hlt|].
  exact (H5 g n l H).
Qed.

Lemma add_graph_annot_good s h a : WF s -> good s (add_graph_annot s h a).
Proof.
  intros Hwf. pose proof Hwf as (Hg & Hm & Ht). unfold add_graph_annot.
  destruct (gh_ok s h) eqn:Hok; cbn [negb]; [|now apply good_same].
  destruct (gh_own h) eqn:Hown; cbn [negb]; [|now apply good_same].
  destruct (ctx_fin s) eqn:Hc; [now apply good_same|].
  pose proof (gh_ok_own _ _ Hok Hown) as Hlt.
  apply good_ok; [|intros Hty; exact Hty].
  split; [eapply WFG_graphs_eq; [|exact Hg]; reflexivity|].
  split; [apply (WFM_eq s); [reflexivity|reflexivity|cbn [ctx_fin]; congruence|exact Hm]|].
  destruct Ht as (H1 & H2 & H3 & H4 & H5 & H6 & H7).
  split; [exact H1|split; [exact H2|split; [exact H3|split; [exact H4|split; [exact H5|split; [|exact H7]]]]]].
  intros g l. cbn [gannots]. intros H.
  apply (lookup_push_annot N.eqb Neqb_spec) in H. destruct H as [->|H]; [exact Hlt|].
  exact (H6 g l H).
Qed.

(* ------------------------------------------------------------------ the theorems *)
Lemma step_good s c : WF s -> good s (step s c).
Proof.
  intros H. destruct c; cbn [step];
    auto using create_graph_good, add_node_good, set_output_good, finalize_graph_good,
      set_main_good, finalize_ctx_good, set_graph_name_good, set_node_name_good,
      add_node_annot_good, add_graph_annot_good, good_same.
Qed.

Lemma inv_init : Inv init.
Proof.
  split; [split; [|split]|].
  - intros [|i] gr H; discriminate.
  - split; [discriminate|discriminate].
  - repeat split; intros; discriminate.
  - intros g n H. unfold ncount, init, nthN in H; cbn in H. destruct (N.to_nat g); cbn in H; lia.
Qed.

Lemma inv_step s c : Inv s -> Inv (step' s c).
Proof.
  intros [Hw Ht]. destruct (step_good s c Hw) as (A & B & _). split; [exact A|exact (B Ht)].
Qed.

Lemma inv_fold cs : forall s, Inv s -> Inv (fold_left step' cs s).
Proof. induction cs as [|c r IH]; intros s H; cbn; [exact H|]. apply IH, inv_step, H. Qed.

Lemma inv_reachable cs : Inv (run cs).
Proof. apply inv_fold, inv_init. Qed.

Lemma fail_atomic s c e : Inv s -> snd (step s c) = OErr e -> fst (step s c) = s.
Proof. intros [Hw _] H. destruct (step_good s c Hw) as (_ & _ & C). eapply C; eauto. Qed.

(* ---- finalization ---- *)
Definition is_mutator (c : call) : bool :=
  match c with
  | CreateGraph | AddNode _ _ _ _ _ _ | SetOutput _ _ | SetMain _ | SetGraphName _ _
  | SetNodeName _ _ | AddNodeAnnot _ _ | AddGraphAnnot _ _ => true
  | _ => false
  end.

Lemma graph_eta_fin gr : g_fin gr = true -> mkGraph (g_id gr) true (g_nodes gr) (g_out gr) = gr.
Proof. destruct gr; cbn; intros ->; reflexivity. Qed.
Lemma set_graphs_id s : set_graphs s (graphs s) = s.
Proof. destruct s; reflexivity. Qed.

(* a finalized graph: add_node and set_output_node are rejected, finalize changes nothing *)
Lemma finalized_graph_rejects s g :
  Inv s -> graph_finalized s g = true ->
  (forall op deps gdeps sup ans, add_node s g op deps gdeps sup ans = (s, OErr E_graph_finalized)) /\
  (forall n, exists e, set_output s g n = (s, OErr e)) /\
  fst (finalize_graph s g) = s.
Proof.
  intros [(Hg & _) _] Hf. unfold graph_finalized in Hf.
  destruct (nthN (graphs s) g) as [gr|] eqn:Hgr; [|discriminate].
  destruct (Hg _ _ Hgr) as (_ & _ & _ & D). specialize (D Hf).
  split; [|split].
  - intros. unfold add_node. now rewrite Hgr, Hf.
  - intros n. unfold set_output. rewrite Hgr.
    destruct (nh_ok s n); cbn [negb]; [|eexists; reflexivity].
    destruct (g_out gr); [eexists; reflexivity|congruence].
  - unfold finalize_graph. rewrite Hgr. destruct (g_out gr); [|reflexivity]. cbn [fst].
    unfold upd_graph, updN. rewrite upd_id; [apply set_graphs_id|].
    intros x Hx. unfold nthN in Hgr. rewrite Hgr in Hx. injection Hx as <-. now apply graph_eta_fin.
Qed.

(* a finalized context: no call changes it, and every mutator is rejected *)
Lemma finalized_ctx_rejects s :
  Inv s -> ctx_fin s = true ->
  (forall c, fst (step s c) = s) /\
  (forall c, is_mutator c = true -> exists e, snd (step s c) = OErr e).
Proof.
  intros Hinv Hc. pose proof Hinv as [(Hg & [M1 M2] & Ht) _].
  destruct (M2 Hc) as [Hall Hmain].
  assert (Hfin : forall g gr, nthN (graphs s) g = Some gr -> graph_finalized s g = true).
  { intros g gr Hgr. unfold graph_finalized. rewrite Hgr. rewrite forallb_forall in Hall.
    apply Hall. eapply nth_error_In; exact Hgr. }
  assert (Hmut : forall c, is_mutator c = true -> exists e, step s c = (s, OErr e)).
  { intros c Hm. destruct c; try discriminate; cbn [step].
    - unfold create_graph. rewrite Hc. eexists; reflexivity.
    - destruct (nthN (graphs s) g) eqn:Hgr.
      + destruct (finalized_graph_rejects s g Hinv (Hfin _ _ Hgr)) as (A & _). rewrite A. eexists; reflexivity.
      + unfold add_node. rewrite Hgr. eexists; reflexivity.
    - destruct (nthN (graphs s) g) eqn:Hgr.
      + destruct (finalized_graph_rejects s g Hinv (Hfin _ _ Hgr)) as (_ & A & _). apply A.
      + unfold set_output. rewrite Hgr. eexists; reflexivity.
    - unfold set_main. destruct (gh_ok s g); cbn [negb]; [|eexists; reflexivity].
      destruct (main s); [eexists; reflexivity|congruence].
    - unfold set_graph_name. destruct (gh_ok s g); cbn [negb]; [|eexists; reflexivity].
      destruct (gh_own g); cbn [negb]; [|eexists; reflexivity]. rewrite Hc. eexists; reflexivity.
    - unfold set_node_name. destruct (nh_ok s n); cbn [negb]; [|eexists; reflexivity].
      destruct (nh_own n); cbn [negb]; [|eexists; reflexivity]. rewrite Hc. eexists; reflexivity.
    - unfold add_node_annot. destruct (nh_ok s n); cbn [negb]; [|eexists; reflexivity].
      destruct (nh_own n); cbn [negb]; [|eexists; reflexivity]. rewrite Hc. eexists; reflexivity.
    - unfold add_graph_annot. destruct (gh_ok s g); cbn [negb]; [|eexists; reflexivity].
      destruct (gh_own g); cbn [negb]; [|eexists; reflexivity]. rewrite Hc. eexists; reflexivity. }
  split.
  - intros c. destruct (is_mutator c) eqn:Hm.
    + destruct (Hmut c Hm) as [e E]. now rewrite E.
    + destruct c; try discriminate; cbn [step fst]; try reflexivity.
      * destruct (nthN (graphs s) g) eqn:Hgr.
        -- now destruct (finalized_graph_rejects s g Hinv (Hfin _ _ Hgr)) as (_ & _ & A).
        -- unfold finalize_graph. now rewrite Hgr.
      * unfold finalize_ctx. rewrite Hall. cbn [negb]. destruct (main s) eqn:Em; [|reflexivity].
        cbn [fst]. rewrite <- Em, <- Hc. apply state_eta.
  - intros c Hm. destruct (Hmut c Hm) as [e E]. exists e. now rewrite E.
Qed.

(* ------------------------------------------------------------------ what the invariant says *)
Lemma inv_meaning s : Inv s ->
  (* graph ids are positions *)
  (forall g gr, nthN (graphs s) g = Some gr -> g_id gr = g) /\
  (* node ids are positions; dependencies precede the node in the same graph and context;
     called graphs are older, finalized graphs of the same context; the node is typed *)
  (forall g gr j nd, nthN (graphs s) g = Some gr -> nthN (g_nodes gr) j = Some nd ->
     n_id nd = j /\
     (forall d, In d (n_deps nd) -> exists k, d = NH self g k /\ k < j) /\
     (forall d, In d (n_gdeps nd) -> exists h, d = GH self h /\ h < g /\ graph_finalized s h = true) /\
     lookup keq2 (g, j) (types s) <> None) /\
  (* names resolve back and are unique *)
  (forall g n nm, lookup keq2 (g, n) (nnames s) = Some nm ->
     lookup keqs (g, nm) (nnames_inv s) = Some n /\ node_exists s g n = true) /\
  (forall g n1 n2 nm, lookup keq2 (g, n1) (nnames s) = Some nm ->
     lookup keq2 (g, n2) (nnames s) = Some nm -> n1 = n2) /\
  (forall g nm, lookup N.eqb g (gnames s) = Some nm ->
     lookup String.eqb nm (gnames_inv s) = Some g /\ graph_exists s g = true) /\
  (forall g1 g2 nm, lookup N.eqb g1 (gnames s) = Some nm ->
     lookup N.eqb g2 (gnames s) = Some nm -> g1 = g2).
Proof.
  intros [(Hg & Hm & (H1 & H2 & H3 & H4 & H5 & H6 & H7)) Hty].
  split; [intros g gr Hgr; eapply graph_id_at; eauto|].
  split.
  { intros g gr j nd Hgr Hnd. destruct (Hg _ _ Hgr) as (A & B & _).
    assert (Hgid : g_id gr = g) by (eapply graph_id_at; eauto).
    destruct (B _ _ Hnd) as (B1 & B2 & B3). rewrite Hgid in *.
    assert (Hj : n_id nd = j) by (rewrite B1; apply N2Nat.id).
    split; [exact Hj|]. rewrite Hj in B2. rewrite forallb_forall in B2, B3.
    split; [|split].
    - intros [c dg dn] Hd. apply B2 in Hd. cbn in Hd.
      apply andb_true_iff in Hd as [Hd D3]. apply andb_true_iff in Hd as [D1 D2].
      apply N.eqb_eq in D1, D2. apply N.ltb_lt in D3. subst. eauto.
    - intros [c dg] Hd. apply B3 in Hd. cbn in Hd.
      apply andb_true_iff in Hd as [Hd D3]. apply andb_true_iff in Hd as [D1 D2].
      apply N.eqb_eq in D3. apply N.ltb_lt in D2. subst. eauto.
    - apply Hty. unfold ncount. rewrite Hgr. eapply nthN_lt; eauto. }
  split.
  { intros g n nm H. destruct (H3 _ _ _ H) as [A B]. split; [exact A|].
    unfold node_exists. now apply N.ltb_lt. }
  split.
  { intros g n1 n2 nm A B. apply H3 in A, B. destruct A as [A _], B as [B _]. congruence. }
  split.
  { intros g nm H. destruct (H1 _ _ H) as [A B]. split; [exact A|].
    unfold graph_exists. destruct (nthN_some _ _ B) as [x ->]. reflexivity. }
  intros g1 g2 nm A B. apply H1 in A, B. destruct A as [A _], B as [B _]. congruence.
Qed.

(* C06 / meta-operation pass: value preservation for graphs without ArrayToVector and Zip (the
   getter-of-constructor laws for tuples, named tuples and vectors, and the A2B/B2A cancellations). *)
From CC Require Import Base.Prelude Base.Scalar Base.Ty Base.Shape Graph.Value Graph.IR Graph.Eval
  Model.Opt Model.Uniquify Proofs.OptBase Proofs.OptSem Proofs.OptSim Proofs.OptFresh Proofs.OptDangling
  Proofs.OptDup Proofs.OptConst Proofs.OptMeta Proofs.EvalProofs Proofs.OptBits.

(* ------------------------------------------------------------------ annotations do not matter *)
Definition core (nd : node) : op * list Z * ty := (n_op nd, n_deps nd, n_ty nd).

Lemma core_nth a b i nd : map core a = map core b -> nth_error a i = Some nd ->
  exists nd', nth_error b i = Some nd' /\ core nd' = core nd.
Proof.
  intros E H. apply (map_nth_error core) in H. rewrite E, nth_error_map in H.
  destruct (nth_error b i) as [nd'|]; [|discriminate]. cbn in H. exists nd'. split; auto. congruence.
Qed.

Lemma core_tys a b : map core a = map core b -> map n_ty a = map n_ty b.
Proof. intros E. apply (f_equal (map snd)) in E. rewrite !map_map in E. exact E. Qed.

Lemma valuation_core sem ft a b tape vals :
  map core a = map core b -> valuation sem ft a tape vals -> valuation sem ft b tape vals.
Proof.
  intros E (L & H). split.
  - rewrite L. apply (f_equal (@length _)) in E. now rewrite !map_length in E.
  - intros i nd v En Ev. destruct (core_nth b a i nd (eq_sym E) En) as (nd' & En' & Ec).
    specialize (H _ _ _ En' Ev). unfold node_sem in *. unfold core in Ec. injection Ec as E1 E2 E3.
    rewrite <- (core_tys _ _ E). rewrite <- E1, <- E2, <- E3. exact H.
Qed.

Lemma sim_core nodes a b vals vals' m :
  map core a = map core b -> sim nodes a vals vals' m -> sim nodes b vals vals' m.
Proof.
  intros E S i j H. destruct (S i j H) as (J & V & (nd & nd' & N1 & N2 & N3)). split; auto. split; auto.
  destruct (core_nth a b _ _ E N2) as (nd'' & N4 & Ec). exists nd, nd''. repeat split; auto.
  unfold core in Ec. injection Ec as _ _ E3. congruence.
Qed.

Lemma add_annots_core out j anns out3 : add_annots out j anns = Ok out3 -> map core out3 = map core out.
Proof.
  unfold add_annots. destruct anns as [|a anns]; [intros H; now injection H as <-|].
  intros H. apply bind_ok in H as (nd & E & H). apply znth_ok in E as (J & E).
  unfold upd in H. replace (j <? 0) with false in H by lia.
  eapply upd_nat_map; eauto.
Qed.

Lemma dep_get_intro {A} (l : list A) n d x :
  nth_error l (Z.to_nat d) = Some x -> 0 <= d < Z.of_nat n -> dep_get l n d = Ok x.
Proof. intros E R. apply dep_get_ok. auto. Qed.

Lemma upd_nat_spec {A} (l : list A) : forall i v l',
  upd_nat l i v = Ok l' ->
  nth_error l' i = Some v /\ forall k, k <> i -> nth_error l' k = nth_error l k.
Proof.
  induction l as [|y l IH]; intros [|i] v l' H; cbn in H; try discriminate.
  - injection H as <-. split; auto. intros [|k] Hk; [congruence|reflexivity].
  - apply bind_ok in H as (r & Er & H). injection H as <-. destruct (IH _ _ _ Er) as (E1 & E2).
    split; auto. intros [|k] Hk; [reflexivity|]. cbn. apply E2. congruence.
Qed.

(* add_annots only appends annotations, to the designated node *)
Lemma add_annots_incl out j anns out3 : add_annots out j anns = Ok out3 ->
  (forall k nd, nth_error out k = Some nd ->
                exists nd3, nth_error out3 k = Some nd3 /\ incl (n_annots nd) (n_annots nd3)) /\
  (forall nd, 0 <= j -> nth_error out (Z.to_nat j) = Some nd ->
              exists nd3, nth_error out3 (Z.to_nat j) = Some nd3 /\ incl anns (n_annots nd3)).
Proof.
  unfold add_annots. destruct anns as [|a0 anns].
  - intros H; injection H as <-. split.
    + intros k nd E. exists nd. split; auto. apply incl_refl.
    + intros nd _ E. exists nd. split; auto. intros x [].
  - intros H. apply bind_ok in H as (nd0 & E0 & H). apply znth_ok in E0 as (J & E0).
    unfold upd in H. replace (j <? 0) with false in H by lia.
    destruct (upd_nat_spec _ _ _ _ H) as (U1 & U2). split.
    + intros k nd E. destruct (Nat.eq_dec k (Z.to_nat j)) as [->|Nk].
      * eexists. split; [exact U1|]. cbn. assert (nd = nd0) by congruence. subst. now apply incl_appl, incl_refl.
      * exists nd. rewrite (U2 k Nk). split; auto. apply incl_refl.
    + intros nd _ E. eexists. split; [exact U1|]. cbn. now apply incl_appr, incl_refl.
Qed.

Lemma Forall2_nth_error {A B} (R : A -> B -> Prop) l l' k a :
  Forall2 R l l' -> nth_error l k = Some a -> exists b, nth_error l' k = Some b /\ R a b.
Proof.
  intros H; revert k. induction H as [|x y l l' Hxy _ IH]; intros [|k] E; cbn in E; try discriminate.
  - injection E as <-. exists y; auto.
  - apply IH in E as (b & E & Rb). exists b; auto.
Qed.

Lemma Forall2_length' {A B} (R : A -> B -> Prop) l l' : Forall2 R l l' -> length l = length l'.
Proof. induction 1; cbn; auto. Qed.

Lemma Forall2_seq {A B} (R : A -> B -> Prop) (f : nat -> A) (l : list B) : forall a,
  (forall k b, nth_error l k = Some b -> R (f (a + k)%nat) b) ->
  Forall2 R (map f (seq a (length l))) l.
Proof.
  induction l as [|b l IH]; intros a H; cbn [length seq map]; constructor.
  - specialize (H O b eq_refl). now rewrite Nat.add_0_r in H.
  - apply IH. intros k b' E. specialize (H (S k) b' E). now rewrite Nat.add_succ_r in H.
Qed.

Lemma meta_find_some meta d e : meta_find meta d = Some e -> In (d, e) meta.
Proof.
  unfold meta_find. destruct (find _ meta) as [[d0 e0]|] eqn:F; [|discriminate].
  intros H; injection H as <-. apply find_some in F as (I & E). cbn in E. assert (d0 = d) by lia. now subst.
Qed.

Lemma typed_nodes_core infer a b : map core a = map core b -> typed_nodes infer a -> typed_nodes infer b.
Proof.
  intros E T i nd En. destruct (core_nth b a i nd (eq_sym E) En) as (nd' & En' & Ec).
  destruct (T _ _ En') as (dts & D & Ty). unfold core in Ec. injection Ec as E1 E2 E3.
  exists dts. rewrite <- (core_tys _ _ E), <- E1, <- E2, <- E3. auto.
Qed.

Lemma typed_nodes_snoc infer out nd dts :
  typed_nodes infer out -> mapM (dep_get (map n_ty out) (length out)) (n_deps nd) = Ok dts ->
  n_ty nd = infer (n_op nd) dts -> typed_nodes infer (out ++ [nd]).
Proof.
  intros T D Ty i nd0 E. apply nth_error_snoc_inv in E as [(L & E)|(-> & ->)].
  - destruct (T _ _ E) as (dts0 & D0 & Ty0). exists dts0. split; auto. rewrite map_app.
    rewrite (mapM_ext _ (dep_get (map n_ty out) i)); auto. intros; apply dep_get_app. rewrite map_length. lia.
  - exists dts. split; auto. rewrite map_app.
    rewrite (mapM_ext _ (dep_get (map n_ty out) (length out))); auto. intros; apply dep_get_app. rewrite map_length. lia.
Qed.

(* operations whose proxies this development covers *)
Definition simple_meta (o : op) : bool :=
  match o with OArrayToVector | OZip => false | _ => true end.

Lemma eval_a2b t0 tt es :
  eval_node OA2B [t0] tt [VArr es] = Ok (VArr (flat_map (bits_lsb (Z.to_nat (width (st_of t0)))) es)).
Proof. reflexivity. Qed.
Lemma eval_b2a st t0 tt es :
  eval_node (OB2A st) [t0] tt [VArr es]
  = Ok (VArr (map from_bits_lsb (chunks (Z.to_nat (width st)) (length es) es))).
Proof. reflexivity. Qed.
Lemma eval_a2b_arr t0 tt v0 v : eval_node OA2B [t0] tt [v0] = Ok v -> exists es, v0 = VArr es.
Proof. destruct v0; [eauto|discriminate]. Qed.
Lemma eval_b2a_arr st t0 tt v0 v : eval_node (OB2A st) [t0] tt [v0] = Ok v -> exists es, v0 = VArr es.
Proof. destruct v0; [eauto|discriminate]. Qed.

Lemma flat_map_bits_length w es : length (flat_map (bits_lsb w) es) = (w * length es)%nat.
Proof. induction es as [|e es IH]; cbn [flat_map length]; [lia|]. rewrite app_length, bits_lsb_length, IH. lia. Qed.

(* the graph contains an A2B or B2A node *)
Definition bits_ops (nodes : list node) : Prop :=
  exists nd, In nd nodes /\ (n_op nd = OA2B \/ exists st, n_op nd = OB2A st).

Section MetaSem.
  Variables (nodes : list node) (o : option Z).
  Variables (tape : Z -> option value) (vals : list value).
  Hypothesis Hval : valuation eval_node from_tape nodes tape vals.
  Hypothesis Hct : const_typed nodes.
  (* a node has fewer than 2^64 dependencies (a Rust Vec cannot be longer) *)
  Hypothesis Hvec : forall nd, In nd nodes -> Z.of_nat (length (n_deps nd)) < 2 ^ 64.
  Hypothesis Hsimple : forall nd, In nd nodes -> simple_meta (n_op nd) = true.
  (* the values of the run are well typed (C09: type soundness of evaluation; for tape entries: of the inputs) *)
  Hypothesis Hvt : bits_ops nodes ->
    forall i nd v, nth_error nodes i = Some nd -> nth_error vals i = Some v -> has_type v (n_ty nd) = true.

  Definition old_val (d : Z) (w : value) : Prop := 0 <= d /\ nth_error vals (Z.to_nat d) = Some w.
  Definition old_ty (d : Z) (t : ty) : Prop := 0 <= d /\ nth_error (map n_ty nodes) (Z.to_nat d) = Some t.

  Definition leaf_valid (t : ty) : Prop := (exists s0, t = TScalar s0) \/ (exists sh s0, t = TArray sh s0 /\ sh <> []).
  Definition b2a_ty (sh : list Z) (st : scalar) : ty := match sh with [] => TScalar st | _ => TArray sh st end.

  (* the types the graph builder assigns to constructors and getters *)
  Definition meta_typed : Prop :=
    forall i nd dts, nth_error nodes i = Some nd ->
      mapM (dep_get (map n_ty nodes) i) (n_deps nd) = Ok dts ->
      match n_op nd with
      | OCreateTuple => n_ty nd = TTuple dts
      | OCreateNamedTuple names => n_ty nd = TNamed (combine names dts) /\ NoDup names /\ length names = length dts
      | OCreateVector t => n_ty nd = TVector (Z.of_nat (length dts)) t /\ Forall (eq t) dts
      | OTupleGet k => exists ts, dts = [TTuple ts] /\ znth ts k = Ok (n_ty nd)
      | ONamedTupleGet name => exists fs k, dts = [TNamed fs] /\ named_index fs name = Some k /\
                                            znth (map snd fs) k = Ok (n_ty nd)
      | OVectorGet => exists n it, dts = [TVector n (n_ty nd); it]
      | OA2B => exists t0, dts = [t0] /\ leaf_valid t0 /\ n_ty nd = TArray (shape_of t0 ++ [width (st_of t0)]) Bit
      | OB2A st => exists sh, dts = [TArray (sh ++ [width st]) Bit] /\ n_ty nd = b2a_ty sh st
      | _ => True
      end.
  Hypothesis Htyped : meta_typed.

  (* element e stands for old node d *)
  Definition elem_desc (meta : list (Z * pw)) (m : list (option Z)) (e : pw) (d : Z) : Prop :=
    0 <= d /\ nth_error m (Z.to_nat d) = Some (Some (snd e)) /\ (fst e = PUnknown \/ In (d, e) meta).

  (* what a proxy says about the value and type of the old node it is attached to *)
  Definition shape_ok (meta : list (Z * pw)) (m : list (option Z)) (p : proxy) (v : value) (t : ty) : Prop :=
    match p with
    | PNumber x => v = VArr [x] /\ t = TScalar U64
    | PUnknown => True
    | PTuple l => exists ds ws ts, Forall2 (elem_desc meta m) l ds /\ Forall2 old_val ds ws /\
                                   Forall2 old_ty ds ts /\ v = VTup ws /\ t = TTuple ts
    | PNamed l => exists ds ws ts, Forall2 (elem_desc meta m) (map snd l) ds /\ Forall2 old_val ds ws /\
                                   Forall2 old_ty ds ts /\ v = VTup ws /\
                                   t = TNamed (combine (map fst l) ts) /\ NoDup (map fst l) /\
                                   length l = length ts
    | PVector l => exists ds ws et, Forall2 (elem_desc meta m) l ds /\ Forall2 old_val ds ws /\
                                    Forall (fun d => old_ty d et) ds /\ v = VTup ws /\
                                    t = TVector (Z.of_nat (length l)) et /\ Z.of_nat (length l) < 2 ^ 64
    | PA2B n => exists dx vx tx, 0 <= dx /\ nth_error m (Z.to_nat dx) = Some (Some n) /\ old_val dx vx /\ old_ty dx tx /\
                            leaf_valid tx /\ t = TArray (shape_of tx ++ [width (st_of tx)]) Bit /\
                            eval_node OA2B [tx] t [vx] = Ok v
    | PB2A n => exists dx vx st sh, 0 <= dx /\ nth_error m (Z.to_nat dx) = Some (Some n) /\ old_val dx vx /\
                               old_ty dx (TArray (sh ++ [width st]) Bit) /\ t = b2a_ty sh st /\
                               eval_node (OB2A st) [TArray (sh ++ [width st]) Bit] t [vx] = Ok v
    | _ => False
    end.

  Lemma elem_desc_mono meta m meta' m' e d :
    elem_desc meta m e d -> elem_desc (meta ++ meta') (m ++ m') e d.
  Proof.
    intros (D & E & [F|F]); split; auto; split; auto using nth_error_app1'.
    right. apply in_or_app; auto.
  Qed.

  Lemma Forall2_elem_desc_mono meta m meta' m' l ds :
    Forall2 (elem_desc meta m) l ds -> Forall2 (elem_desc (meta ++ meta') (m ++ m')) l ds.
  Proof. induction 1; constructor; auto using elem_desc_mono. Qed.

  Lemma shape_ok_mono meta m meta' m' p v t :
    shape_ok meta m p v t -> shape_ok (meta ++ meta') (m ++ m') p v t.
  Proof.
    destruct p; cbn; auto.
    - intros (ds & ws & ts & H & R). exists ds, ws, ts. split; auto using Forall2_elem_desc_mono.
    - intros (ds & ws & ts & H & R). exists ds, ws, ts. split; auto using Forall2_elem_desc_mono.
    - intros (ds & ws & et & H & R). exists ds, ws, et. split; auto using Forall2_elem_desc_mono.
    - intros (dx & vx & tx & D & E & R). exists dx, vx, tx. split; auto. split; auto using nth_error_app1'.
    - intros (dx & vx & st & sh & D & E & R). exists dx, vx, st, sh. split; auto. split; auto using nth_error_app1'.
  Qed.

  Definition meta_ok (pre : list node) (m : list (option Z)) (meta : list (Z * pw)) : Prop :=
    forall i0 e, In (i0, e) meta ->
      0 <= i0 /\ nth_error m (Z.to_nat i0) = Some (Some (snd e)) /\
      exists v nd0, nth_error vals (Z.to_nat i0) = Some v /\ nth_error nodes (Z.to_nat i0) = Some nd0 /\
                    shape_ok meta m (fst e) v (n_ty nd0).

  Lemma meta_ok_ext pre a m x meta : meta_ok pre m meta -> meta_ok (pre ++ [a]) (m ++ [x]) meta.
  Proof.
    intros H i0 e I. destruct (H i0 e I) as (D & E & v & nd0 & V & N & S).
    split; auto. split; auto using nth_error_app1'. exists v, nd0. repeat split; auto.
    rewrite <- (app_nil_r meta). now apply shape_ok_mono.
  Qed.

  Lemma meta_ok_snoc pre m meta i e v nd0 :
    meta_ok pre m meta -> 0 <= i -> nth_error m (Z.to_nat i) = Some (Some (snd e)) ->
    nth_error vals (Z.to_nat i) = Some v -> nth_error nodes (Z.to_nat i) = Some nd0 ->
    shape_ok meta m (fst e) v (n_ty nd0) ->
    meta_ok pre m (meta ++ [(i, e)]).
  Proof.
    intros H D E V N S i0 e0 I. apply in_app_iff in I as [I|[I|[]]].
    - destruct (H i0 e0 I) as (D0 & E0 & v0 & nd1 & V0 & N0 & S0).
      split; auto. split; auto. exists v0, nd1. repeat split; auto.
      rewrite <- (app_nil_r m). now apply shape_ok_mono.
    - injection I as <- <-. split; auto. split; auto. exists v, nd0. repeat split; auto.
      rewrite <- (app_nil_r m). now apply shape_ok_mono.
  Qed.

  (* the element list built from the proxies of the dependencies describes the dependencies *)
  Lemma elements_desc pre m meta (deps_old deps : list Z) :
    meta_ok pre m meta -> mapM (map_get m) deps_old = Ok deps ->
    Forall2 (elem_desc meta m)
            (map (fun k => match nth k (map (meta_find meta) deps_old) None with
                           | Some e => e | None => (PUnknown, nth k deps 0) end)
                 (seq 0 (length deps))) deps_old.
  Proof.
    intros Mo M. apply mapM_Forall2 in M. pose proof (Forall2_length' _ _ _ M) as L. rewrite <- L.
    apply Forall2_seq. intros k d Ek. cbn [Nat.add].
    destruct (Forall2_nth_error _ _ _ _ _ M Ek) as (j & Ej & Hj). apply map_get_ok in Hj as (D & Hj).
    rewrite (nth_error_nth _ _ None (map_nth_error (meta_find meta) _ _ Ek)).
    destruct (meta_find meta d) as [e|] eqn:F.
    - apply meta_find_some in F. destruct (Mo _ _ F) as (_ & E & _). split; auto.
    - rewrite (nth_error_nth _ _ 0 Ej). split; auto.
  Qed.

  (* an element that stands for an old node with the value and type of the current node can
     replace it *)
  Lemma resolve_elem pre m meta e d v_a (a : node) :
    meta_ok pre m meta -> elem_desc meta m e d -> old_val d v_a -> old_ty d (n_ty a) ->
    shape_ok meta m (fst e) v_a (n_ty a) /\
    (forall out1 vals1 npre, sim nodes out1 vals vals1 m -> nth_error nodes npre = Some a ->
                             nth_error vals npre = Some v_a -> rel nodes out1 vals vals1 npre (snd e)).
  Proof.
    intros Mo (D & E & F) (_ & Ov) (_ & Ot). split.
    - destruct F as [F|F]; [rewrite F; exact I|].
      destruct (Mo _ _ F) as (_ & _ & v & nd0 & V & N & S).
      rewrite (map_nth_error n_ty _ _ N) in Ot. injection Ot as Ot.
      assert (v = v_a) by congruence. subst v. now rewrite <- Ot.
    - intros out1 vals1 npre S Ea Ev. destruct (S _ _ E) as (J & (v & V1 & V2) & (nd & nd' & N1 & N2 & N3)).
      rewrite (map_nth_error n_ty _ _ N1) in Ot. injection Ot as Ot.
      assert (v = v_a) by congruence. subst v. split; auto. split.
      + exists v_a; auto.
      + exists a, nd'. repeat split; auto. congruence.
  Qed.

  Lemma deps_old_val i deps vs : mapM (dep_get vals i) deps = Ok vs -> Forall2 old_val deps vs.
  Proof.
    intros H. apply mapM_Forall2 in H. induction H as [|d v l l' E _ IH]; constructor; auto.
    apply dep_get_ok in E as ((D & _) & E). split; auto.
  Qed.
  Lemma deps_old_ty i deps dts : mapM (dep_get (map n_ty nodes) i) deps = Ok dts -> Forall2 old_ty deps dts.
  Proof.
    intros H. apply mapM_Forall2 in H. induction H as [|d v l l' E _ IH]; constructor; auto.
    apply dep_get_ok in E as ((D & _) & E). split; auto.
  Qed.

  Lemma old_val_fun d v1 v2 : old_val d v1 -> old_val d v2 -> v1 = v2.
  Proof. intros (_ & A) (_ & B). congruence. Qed.
  Lemma old_ty_fun d v1 v2 : old_ty d v1 -> old_ty d v2 -> v1 = v2.
  Proof. intros (_ & A) (_ & B). congruence. Qed.

  (* named tuples: with distinct names the last entry with a name is the first one *)
  Lemma named_index_go fs name : forall base k p,
    NoDup (map fst fs) -> nth_error fs k = Some p -> fst p = name ->
    (fix go (fs : list (string * ty)) (i : Z) :=
       match fs with
       | [] => None
       | f :: r => if String.eqb (fst f) name then Some i else go r (i + 1)
       end) fs base = Some (base + Z.of_nat k).
  Proof.
    induction fs as [|f fs IH]; intros base k p Nd E F; [destruct k; discriminate|].
    destruct k as [|k]; cbn in E.
    - injection E as ->. rewrite F, String.eqb_refl. f_equal. lia.
    - cbn [map] in Nd. inversion Nd as [|? ? Hn Nd']; subst.
      destruct (String.eqb (fst f) (fst p)) eqn:X.
      + apply String.eqb_eq in X. exfalso. apply Hn. rewrite X. apply in_map. eapply nth_error_In; eauto.
      + rewrite (IH (base + 1) k p Nd' E eq_refl). f_equal. lia.
  Qed.

  Lemma find_rev_nth {A} (f : A -> bool) (l : list A) p :
    find f (rev l) = Some p -> exists k, nth_error l k = Some p /\ f p = true.
  Proof.
    intros H. apply find_some in H as (I & F). apply in_rev in I. apply In_nth_error in I as (k & E). eauto.
  Qed.

  Section Step.
    Variables (pre : list node) (a : node) (s : meta_state) (v_a : value).
    Hypothesis Ea : nth_error nodes (length pre) = Some a.
    Hypothesis Ev : nth_error vals (length pre) = Some v_a.
    Hypothesis Mo : meta_ok pre (ms_map s) (ms_meta s).
    Hypothesis Lm : length (ms_map s) = length pre.
    Hypothesis Hb : bounded (ms_map s) (length (ms_out s)).

    Let m := ms_map s.
    Let meta := ms_meta s.
    Let out := ms_out s.
    Let simple := Z.of_nat (length out).

    Definition outcome_ok (out1 out2 : list node) (mn : option pw) : Prop :=
      (forall e, mn = Some e -> shape_ok meta m (fst e) v_a (n_ty a)) /\
      (forall tape' vals1,
          valuation eval_node from_tape out1 tape' vals1 -> sim nodes out1 vals vals1 m ->
          rel nodes out1 vals vals1 (length pre) simple ->
          exists vals2, valuation eval_node from_tape out2 tape' vals2 /\ sim nodes out2 vals vals2 m /\
                        rel nodes out2 vals vals2 (length pre)
                            (match mn with Some e => snd e | None => simple end) /\
                        (forall infer, typed_nodes infer out1 ->
                           (forall dts, mapM (dep_get (map n_ty nodes) (length pre)) (n_deps a) = Ok dts ->
                                        n_ty a = infer (n_op a) dts) ->
                           typed_nodes infer out2)) /\
      ((length out < length out1)%nat ->
       0 <= match mn with Some e => snd e | None => simple end < Z.of_nat (length out2)).

    Lemma outcome_none out1 : outcome_ok out1 out1 None.
    Proof.
      split; [discriminate|]. split; [|unfold simple; lia].
      intros tape' vals1 V S R. exists vals1. auto 6.
    Qed.

    Lemma outcome_simple out1 p : shape_ok meta m p v_a (n_ty a) -> outcome_ok out1 out1 (Some (p, simple)).
    Proof.
      intros Sh. split; [intros e E; injection E as <-; exact Sh|]. split; [|cbn [snd]; unfold simple; lia].
      intros tape' vals1 V S R. exists vals1. auto 6.
    Qed.

    Lemma outcome_resolved out1 e d :
      elem_desc meta m e d -> old_val d v_a -> old_ty d (n_ty a) -> outcome_ok out1 out1 (Some e).
    Proof.
      intros De Ov Ot. destruct (resolve_elem _ _ _ _ _ _ _ Mo De Ov Ot) as (Sh & Hr).
      split; [intros e0 E; injection E as <-; exact Sh|]. split.
      - intros tape' vals1 V S R. exists vals1. split; [auto|split; [auto|split; [|auto]]]. apply Hr; auto.
      - intros L. destruct De as (_ & Ee & _). apply Hb in Ee. fold out in Ee. lia.
    Qed.

    Lemma outcome_redirect out1 p j' d :
      0 <= d -> nth_error m (Z.to_nat d) = Some (Some j') -> old_val d v_a -> old_ty d (n_ty a) ->
      shape_ok meta m p v_a (n_ty a) -> outcome_ok out1 out1 (Some (p, j')).
    Proof.
      intros D E Ov Ot Sh.
      assert (De : elem_desc meta m (PUnknown, j') d) by (split; auto; split; auto; left; reflexivity).
      destruct (resolve_elem _ _ _ _ _ _ _ Mo De Ov Ot) as (_ & Hr).
      split; [intros e0 E0; injection E0 as <-; exact Sh|]. split.
      - intros tape' vals1 V S R. exists vals1. split; [auto|split; [auto|split; [|auto]]].
        apply (Hr out1 vals1 (length pre)); auto.
      - intros L. cbn [snd]. apply Hb in E. fold out in E. lia.
    Qed.

    Variables (deps : list Z).
    Hypothesis Ed : mapM (map_get m) (n_deps a) = Ok deps.
    Hypothesis Ia : In a nodes.
    Hypothesis Na : node_sem eval_node from_tape (map n_ty nodes) vals tape (length pre) a v_a.

    Let meta_deps := map (meta_find meta) (n_deps a).
    Let elements := map (fun k => match nth k meta_deps None with
                                  | Some e => e | None => (PUnknown, nth k deps 0) end)
                        (seq 0 (length deps)).

    Lemma elements_ok : Forall2 (elem_desc meta m) elements (n_deps a).
    Proof. apply (elements_desc pre); auto. Qed.

    Lemma len_deps : length deps = length (n_deps a).
    Proof. apply mapM_Forall2 in Ed. symmetry. eapply Forall2_length'; eauto. Qed.

    (* the old evaluation of a non-tape node *)
    Lemma old_eval : from_tape (n_op a) = false ->
      exists vs dts, Forall2 old_val (n_deps a) vs /\ Forall2 old_ty (n_deps a) dts /\
                     mapM (dep_get (map n_ty nodes) (length pre)) (n_deps a) = Ok dts /\
                     eval_node (n_op a) dts (n_ty a) vs = Ok v_a.
    Proof.
      intros Ft. unfold node_sem in Na. rewrite Ft in Na. destruct Na as (vs & dts & A1 & A2 & A3).
      exists vs, dts. repeat split; eauto using deps_old_val, deps_old_ty.
    Qed.

    Lemma proxy_of_elem p j d : elem_desc meta m (p, j) d -> p <> PUnknown ->
      exists v nd0, old_val d v /\ old_ty d (n_ty nd0) /\ shape_ok meta m p v (n_ty nd0).
    Proof.
      intros (D & E & [F|F]) Np; [cbn in F; congruence|].
      destruct (Mo _ _ F) as (_ & _ & v & nd0 & V & N & S). exists v, nd0. repeat split; auto.
      now apply map_nth_error.
    Qed.

    Lemma combine_fst {A B} (x : list A) (y : list B) : length x = length y -> map fst (combine x y) = x.
    Proof. revert y; induction x as [|a0 x IH]; intros [|b y] L; cbn in *; try discriminate; auto. f_equal; auto. Qed.
    Lemma combine_snd {A B} (x : list A) (y : list B) : length x = length y -> map snd (combine x y) = y.
    Proof. revert y; induction x as [|a0 x IH]; intros [|b y] L; cbn in *; try discriminate; auto. f_equal; auto. Qed.

    Lemma len_elements : length elements = length (n_deps a).
    Proof. unfold elements. now rewrite map_length, seq_length, len_deps. Qed.

    Lemma sim_lookup out1 vals1 d j v t :
      sim nodes out1 vals vals1 m -> nth_error m (Z.to_nat d) = Some (Some j) -> old_val d v -> old_ty d t ->
      0 <= j /\ nth_error vals1 (Z.to_nat j) = Some v /\ nth_error (map n_ty out1) (Z.to_nat j) = Some t.
    Proof.
      intros S E (_ & Ov) (_ & Ot). destruct (S _ _ E) as (J & (v0 & V1 & V2) & (nd & nd' & N1 & N2 & N3)).
      rewrite (map_nth_error n_ty _ _ N1) in Ot. split; auto. split; [congruence|].
      rewrite (map_nth_error n_ty _ _ N2). congruence.
    Qed.

    Lemma as_u64_small x : 0 <= x < 2 ^ 64 -> as_u64 U64 x = x.
    Proof.
      intros R. unfold as_u64, sval, norm. change (modulus U64) with (2 ^ 64). cbn [signed andb].
      rewrite !Z.mod_small; lia.
    Qed.

    Lemma meta_node_of_sem out1 out2 mn :
      out1 = out ++ [mkNode (n_op a) deps [] [] (n_ty a)] ->
      meta_node_of out1 simple (n_op a) deps meta_deps = Ok (out2, mn) -> outcome_ok out1 out2 mn.
    Proof.
      intros Eo1 Em.
      destruct (is_meta_op (n_op a)) eqn:P.
      2:{ apply meta_node_of_ext in Em as (_ & Em). destruct (Em P) as (-> & ->). apply outcome_none. }
      pose proof (Hsimple a Ia) as Hs.
      pose proof elements_ok as Eok. pose proof len_elements as Lel.
      unfold meta_node_of in Em. cbv zeta in Em. fold elements in Em.
      destruct (n_op a) eqn:Eo; try discriminate P; try discriminate Hs; clear P Hs.
      - (* Constant *)
        assert (Ft : from_tape (n_op a) = false) by (rewrite Eo; reflexivity).
        destruct (old_eval Ft) as (vs & dts & A1 & A2 & A3 & A4). rewrite Eo in A4. cbn in A4. injection A4 as <-.
        destruct t as [[]| | | |]; try (injection Em as <- <-; apply outcome_none).
        destruct v as [[|x [|y l]]|]; try (injection Em as <- <-; apply outcome_none).
        injection Em as <- <-. apply outcome_simple. cbn. split; auto. eapply Hct; eauto.
      - (* A2B *)
        assert (Ft : from_tape (n_op a) = false) by (rewrite Eo; reflexivity).
        destruct (old_eval Ft) as (vs & dts & A1 & A2 & A3 & A4). rewrite Eo in A4.
        pose proof (Htyped _ _ _ Ea A3) as Ht. rewrite Eo in Ht. destruct Ht as (t0 & -> & Lv0 & Eta).
        destruct (n_deps a) as [|d0 [|d1 dl]] eqn:Eda; inversion A2 as [|? ? ? ? Ot0 A2']; subst; inversion A2'; subst.
        inversion A1 as [|? v0 ? ? Ov0 A1']; subst. inversion A1'; subst. clear A1 A1' A2 A2'.
        cbn [mapM] in Ed. apply bind_ok in Ed as (jd & Ejd & Ed). cbn [bind] in Ed. injection Ed as <-.
        apply map_get_ok in Ejd as (D0 & Ejd). cbn [nth] in Em.
        assert (Sh : shape_ok meta m (PA2B jd) v_a (n_ty a)).
        { exists d0, v0, t0. repeat split; auto; try apply Ot0; try apply Ov0; try (now rewrite <- Eta). }
        injection Em as <- <-.
        unfold meta_deps. try rewrite Eda. cbn [map nth].
        destruct (meta_find meta d0) as [[p0 j0]|] eqn:Fm; [|now apply outcome_simple].
        destruct p0; try (now apply outcome_simple).
        (* the operand is B2A of some node: A2B (B2A x) = x *)
        apply meta_find_some in Fm. destruct (Mo _ _ Fm) as (_ & _ & v0' & nd0 & V0 & N0 & Sh0).
        assert (v0' = v0) by (destruct Ov0; congruence). subst v0'.
        assert (n_ty nd0 = t0) by (destruct Ot0 as (_ & Ot0); rewrite (map_nth_error n_ty _ _ N0) in Ot0; congruence).
        subst t0. cbn [fst] in Sh0. destruct Sh0 as (dx & vx & st' & sh & Dx & Emx & Ovx & Otx & Et0 & Ob).
        destruct (eval_b2a_arr _ _ _ _ _ Ob) as (es & ->). rewrite eval_b2a in Ob. injection Ob as <-.
        rewrite eval_a2b in A4. injection A4 as A4.
        assert (Hbo : bits_ops nodes) by (exists a; split; auto).
        assert (Hx : has_type (VArr es) (TArray (sh ++ [width st']) Bit) = true).
        { destruct Otx as (_ & Otx). rewrite nth_error_map in Otx.
          destruct (nth_error nodes (Z.to_nat dx)) as [ndx|] eqn:Nx; [|discriminate]. injection Otx as <-.
          eapply (Hvt Hbo); eauto. apply Ovx. }
        apply has_type_bits in Hx as (Hl & Hbits). rewrite prod_list_snoc in Hl.
        assert (Est : st_of (n_ty nd0) = st') by (rewrite Et0; destruct sh; reflexivity).
        assert (Esh : shape_of (n_ty nd0) = sh) by (rewrite Et0; destruct sh; reflexivity).
        rewrite Est in A4. pose proof (width_pos st') as Wp.
        rewrite (a2b_b2a_chunks (Z.to_nat (width st')) ltac:(lia) (Z.to_nat (prod_list sh)) (length es) es) in A4; auto; try nia.
        eapply (outcome_redirect _ _ _ dx); eauto.
        + rewrite <- A4. exact Ovx.
        + rewrite Eta, Esh, Est. exact Otx.
      - (* B2A *)
        assert (Ft : from_tape (n_op a) = false) by (rewrite Eo; reflexivity).
        destruct (old_eval Ft) as (vs & dts & A1 & A2 & A3 & A4). rewrite Eo in A4.
        pose proof (Htyped _ _ _ Ea A3) as Ht. rewrite Eo in Ht. destruct Ht as (sh & -> & Eta).
        destruct (n_deps a) as [|d0 [|d1 dl]] eqn:Eda; inversion A2 as [|? ? ? ? Ot0 A2']; subst; inversion A2'; subst.
        inversion A1 as [|? v0 ? ? Ov0 A1']; subst. inversion A1'; subst. clear A1 A1' A2 A2'.
        cbn [mapM] in Ed. apply bind_ok in Ed as (jd & Ejd & Ed). cbn [bind] in Ed. injection Ed as <-.
        apply map_get_ok in Ejd as (D0 & Ejd). cbn [nth] in Em.
        assert (Sh : shape_ok meta m (PB2A jd) v_a (n_ty a)).
        { exists d0, v0, st, sh. repeat split; auto; try apply Ot0; try apply Ov0; try (now rewrite <- Eta). }
        apply bind_ok in Em as (node & En & Em). injection Em as <- <-.
        unfold meta_deps in En. try rewrite Eda in En. cbn [map nth] in En.
        destruct (meta_find meta d0) as [[p0 j0]|] eqn:Fm; [|injection En as <-; now apply outcome_simple].
        destruct p0; try (injection En as <-; now apply outcome_simple).
        (* the operand is A2B of some node x: B2A st (A2B x) = x when st is the scalar type of x *)
        apply bind_ok in En as (at_ & Eat & En). injection En as <-.
        apply meta_find_some in Fm. destruct (Mo _ _ Fm) as (_ & _ & v0' & nd0 & V0 & N0 & Sh0).
        assert (v0' = v0) by (destruct Ov0; congruence). subst v0'.
        assert (Et0 : n_ty nd0 = TArray (sh ++ [width st]) Bit)
          by (destruct Ot0 as (_ & Ot0); rewrite (map_nth_error n_ty _ _ N0) in Ot0; congruence).
        cbn [fst] in Sh0. destruct Sh0 as (dx & vx & tx & Dx & Emx & Ovx & Otx & Lvx & Et0' & Oa).
        rewrite Et0 in Et0', Oa. injection Et0' as Esh. apply app_inj_tail in Esh as (Esh & Ew).
        split; [intros e0 E0; injection E0 as <-; exact Sh|]. split.
        + intros tape' vals1 V1 S1 R1. exists vals1. split; [auto|split; [auto|split; [|auto]]]. cbn [snd].
          destruct (scalar_eqb st (st_of at_)) eqn:Q; [|exact R1].
          apply scalar_eqb_eq in Q.
          destruct (sim_lookup _ _ _ _ _ _ S1 Emx Ovx Otx) as (Jn & Vn & Tn).
          assert (at_ = tx).
          { unfold node_ty_at in Eat. apply bind_ok in Eat as (ndn & En & Eat). injection Eat as <-.
            apply znth_ok in En as (_ & En). rewrite (map_nth_error n_ty _ _ En) in Tn. congruence. }
          subst at_.
          assert (Hbo : bits_ops nodes) by (exists a; split; eauto).
          assert (Hx : has_type vx tx = true).
          { destruct Otx as (_ & Otx'). rewrite nth_error_map in Otx'.
            destruct (nth_error nodes (Z.to_nat dx)) as [ndx|] eqn:Nx; [|discriminate]. injection Otx' as <-.
            eapply (Hvt Hbo); eauto. apply Ovx. }
          destruct (eval_a2b_arr _ _ _ _ Oa) as (es & ->). rewrite eval_a2b in Oa. injection Oa as <-.
          rewrite eval_b2a in A4. injection A4 as A4.
          assert (Lf : is_leaf tx = true) by (destruct Lvx as [(s0 & ->)|(shx & s0 & -> & _)]; reflexivity).
          pose proof (has_type_leaf_range _ _ Lf Hx) as Rg. rewrite <- Q in Rg.
          pose proof (width_pos st) as Wp.
          rewrite <- Q, flat_map_bits_length in A4.
          rewrite (b2a_a2b_chunks (Z.to_nat (width st)) ltac:(lia)) in A4; [| nia |].
          2:{ eapply Forall_impl; [|exact Rg]. intros e He. unfold modulus in He. rewrite Z2Nat.id by lia. exact He. }
          assert (Ovx' : old_val dx v_a) by (rewrite <- A4; exact Ovx).
          assert (De : elem_desc meta m (PUnknown, n) dx) by (split; auto; split; auto; left; reflexivity).
          assert (Ota : old_ty dx (n_ty a)).
          { rewrite Eta. destruct Lvx as [(s0 & ->)|(shx & s0 & -> & Nn)]; cbn [shape_of st_of] in *.
            - subst sh st. exact Otx.
            - subst sh st. destruct shx; [congruence|exact Otx]. }
          destruct (resolve_elem _ _ _ _ _ _ _ Mo De Ovx' Ota) as (_ & Hr).
          apply (Hr _ vals1 (length pre)); auto.
        + intros L. cbn [snd]. destruct (scalar_eqb st (st_of at_)); [|unfold simple; lia].
          apply Hb in Emx. fold out in Emx. lia.
      - (* CreateTuple *)
        injection Em as <- <-. apply outcome_simple.
        assert (Ft : from_tape (n_op a) = false) by (rewrite Eo; reflexivity).
        destruct (old_eval Ft) as (vs & dts & A1 & A2 & A3 & A4). rewrite Eo in A4. cbn in A4. injection A4 as <-.
        pose proof (Htyped _ _ _ Ea A3) as Ht. rewrite Eo in Ht.
        exists (n_deps a), vs, dts. repeat split; auto.
      - (* CreateNamedTuple *)
        injection Em as <- <-. apply outcome_simple.
        assert (Ft : from_tape (n_op a) = false) by (rewrite Eo; reflexivity).
        destruct (old_eval Ft) as (vs & dts & A1 & A2 & A3 & A4). rewrite Eo in A4. cbn in A4. injection A4 as <-.
        pose proof (Htyped _ _ _ Ea A3) as Ht. rewrite Eo in Ht. destruct Ht as (Ht & Nd & Ln).
        assert (Ld : length names = length elements).
        { rewrite Lel, Ln. symmetry. eapply Forall2_length'; eauto. }
        exists (n_deps a), vs, dts. cbn. rewrite combine_snd, combine_fst by auto. repeat split; auto.
        rewrite combine_length. rewrite <- Ld, Ln. lia.
      - (* CreateVector *)
        injection Em as <- <-. apply outcome_simple.
        assert (Ft : from_tape (n_op a) = false) by (rewrite Eo; reflexivity).
        destruct (old_eval Ft) as (vs & dts & A1 & A2 & A3 & A4). rewrite Eo in A4. cbn in A4. injection A4 as <-.
        pose proof (Htyped _ _ _ Ea A3) as Ht. rewrite Eo in Ht. destruct Ht as (Ht & Fa).
        exists (n_deps a), vs, t. repeat split; auto.
        + clear -A2 Fa. induction A2 as [|d t0 l l' E _ IH]; constructor.
          * inversion Fa; subst. auto.
          * apply IH. now inversion Fa.
        + rewrite Ht. do 2 f_equal. transitivity (length (n_deps a)); [symmetry; eapply Forall2_length'; eauto|symmetry; exact Lel].
        + pose proof (Hvec a Ia) as Hv. rewrite <- Lel in Hv. exact Hv.
      - (* TupleGet *)
        destruct (forallb _ meta_deps); [|injection Em as <- <-; apply outcome_none].
        remember elements as els eqn:El. destruct els as [|[p j] [|e2 l2]]; try discriminate.
        2:{ destruct p; discriminate. }
        inversion Eok as [|? d0 ? ds0 De Hnil Eq1 Eq2]; subst. inversion Hnil; subst.
        destruct p; try (injection Em as <- <-; apply outcome_none).
        apply bind_ok in Em as (e & Ez & Em). injection Em as <- <-.
        destruct (proxy_of_elem _ _ _ De) as (v0 & nd0 & Ov0 & Ot0 & Sh); [discriminate|].
        destruct Sh as (ds & ws & ts & F1 & F2 & F3 & -> & Et).
        assert (Ft : from_tape (n_op a) = false) by (rewrite Eo; reflexivity).
        destruct (old_eval Ft) as (vs & dts & A1 & A2 & A3 & A4). rewrite Eo in A4. rewrite <- Eq2 in A1, A2, A3.
        inversion A1 as [|? w0 ? ? Ow0 Hn1]; subst. inversion Hn1; subst.
        inversion A2 as [|? t0 ? ? Ot0' Hn2]; subst. inversion Hn2; subst.
        assert (w0 = VTup ws) by (eapply old_val_fun; eauto). subst w0.
        assert (t0 = TTuple ts) by (rewrite <- Et; eapply old_ty_fun; eauto). subst t0.
        assert (A3' := A3). rewrite Eq2 in A3'. pose proof (Htyped _ _ _ Ea A3') as Ht. rewrite Eo in Ht.
        destruct Ht as (ts' & Ets & Hk). injection Ets as <-.
        cbn in A4. apply znth_ok in A4 as (K0 & A4). apply znth_ok in Hk as (_ & Hk). apply znth_ok in Ez as (_ & Ez).
        destruct (Forall2_nth_error _ _ _ _ _ F1 Ez) as (d & Ed' & Dd).
        destruct (Forall2_nth_error _ _ _ _ _ F2 Ed') as (w & Ew & Ow).
        destruct (Forall2_nth_error _ _ _ _ _ F3 Ed') as (t' & Et' & Ot').
        eapply outcome_resolved; eauto; congruence.
      - (* NamedTupleGet *)
        destruct (forallb _ meta_deps); [|injection Em as <- <-; apply outcome_none].
        remember elements as els eqn:El. destruct els as [|[p j] [|e2 l2]]; try discriminate.
        2:{ destruct p; discriminate. }
        inversion Eok as [|? d0 ? ds0 De Hnil Eq1 Eq2]; subst. inversion Hnil; subst.
        destruct p; try (injection Em as <- <-; apply outcome_none).
        destruct (find _ (rev l)) as [pe|] eqn:Fd; [|discriminate]. injection Em as <- <-.
        destruct (proxy_of_elem _ _ _ De) as (v0 & nd0 & Ov0 & Ot0 & Sh); [discriminate|].
        destruct Sh as (ds & ws & ts & F1 & F2 & F3 & -> & Et & Ndl & Ll).
        assert (Ft : from_tape (n_op a) = false) by (rewrite Eo; reflexivity).
        destruct (old_eval Ft) as (vs & dts & A1 & A2 & A3 & A4). rewrite Eo in A4. rewrite <- Eq2 in A1, A2, A3.
        inversion A1 as [|? w0 ? ? Ow0 Hn1]; subst. inversion Hn1; subst.
        inversion A2 as [|? t0 ? ? Ot0' Hn2]; subst. inversion Hn2; subst.
        assert (w0 = VTup ws) by (eapply old_val_fun; eauto). subst w0.
        assert (t0 = TNamed (combine (map fst l) ts)) by (rewrite <- Et; eapply old_ty_fun; eauto). subst t0.
        assert (A3' := A3). rewrite Eq2 in A3'. pose proof (Htyped _ _ _ Ea A3') as Ht. rewrite Eo in Ht.
        destruct Ht as (fs & k & Efs & Hni & Hk). injection Efs as <-.
        apply find_rev_nth in Fd as (kk & Ekk & Fn). apply String.eqb_eq in Fn.
        assert (Lc : length (map fst l) = length ts) by (rewrite map_length; auto).
        assert (Hni' : named_index (combine (map fst l) ts) name = Some (0 + Z.of_nat kk)).
        { destruct (nth_error ts kk) as [tk|] eqn:Etk.
          2:{ apply nth_error_None in Etk. apply nth_error_Some_lt in Ekk. lia. }
          apply (named_index_go _ name 0 kk (fst pe, tk)); auto.
          - now rewrite combine_fst.
          - clear -Ekk Etk. revert ts kk Ekk Etk. induction l as [|x l IH]; intros [|t ts] [|kk] E1 E2; cbn in *; try discriminate.
            + now injection E1 as ->; injection E2 as ->.
            + eauto. }
        rewrite Hni' in Hni. injection Hni as <-.
        unfold eval_node in A4. cbn [nth] in A4. rewrite Hni' in A4. cbn in A4.
        apply znth_ok in A4 as (K0 & A4). apply znth_ok in Hk as (_ & Hk).
        replace (Z.to_nat (0 + Z.of_nat kk)) with kk in A4, Hk by lia.
        rewrite combine_snd in Hk by auto.
        assert (Ekk' : nth_error (map snd l) kk = Some (snd pe)) by (now apply map_nth_error).
        destruct (Forall2_nth_error _ _ _ _ _ F1 Ekk') as (d & Ed' & Dd).
        destruct (Forall2_nth_error _ _ _ _ _ F2 Ed') as (w & Ew & Ow).
        destruct (Forall2_nth_error _ _ _ _ _ F3 Ed') as (t' & Et' & Ot').
        eapply outcome_resolved; eauto; congruence.
      - (* VectorGet *)
        destruct (forallb _ meta_deps); [|injection Em as <- <-; apply outcome_none].
        remember elements as els eqn:El. destruct els as [|obj [|[p1 inode] [|e3 l3]]]; try discriminate.
        2:{ destruct p1; discriminate. }
        destruct (n_deps a) as [|d0 [|d1 [|d2 dl]]] eqn:Eda; try discriminate Lel.
        inversion Eok as [|? ? ? ? De0 Hr]; subst. inversion Hr as [|? ? ? ? De1 Hnil]; subst. clear Hr Hnil Eok.
        destruct p1 as [idx| | | | | | | |]; try (injection Em as <- <-; apply outcome_none).
        destruct (proxy_of_elem _ _ _ De1) as (vi & ndi & Ovi & Oti & Shi); [discriminate|].
        destruct Shi as (-> & Eti).
        assert (Ft : from_tape (n_op a) = false) by (rewrite Eo; reflexivity).
        destruct (old_eval Ft) as (vs & dts & A1 & A2 & A3 & A4). rewrite Eo in A4. rewrite Eda in A1, A2, A3.
        inversion A1 as [|? v0 ? ? Ov0 A1']; subst. inversion A1' as [|? v1 ? ? Ov1 A1'']; subst. inversion A1''; subst.
        inversion A2 as [|? t0 ? ? Ot0 A2']; subst. inversion A2' as [|? t1 ? ? Ot1 A2'']; subst. inversion A2''; subst.
        clear A1 A1' A1'' A2 A2' A2''.
        assert (v1 = VArr [idx]) by (eapply old_val_fun; eauto). subst v1.
        assert (t1 = TScalar U64) by (rewrite <- Eti; eapply old_ty_fun; eauto). subst t1.
        assert (A3' := A3). rewrite <- Eda in A3'. pose proof (Htyped _ _ _ Ea A3') as Ht. rewrite Eo in Ht.
        destruct Ht as (n & it & Edts). injection Edts as -> <-.
        unfold eval_node in A4. cbn [nth nth_res bind arr_of st_of] in A4.
        cbn [maybe_vector_get] in Em. destruct obj as [p0 j0]. cbn [fst snd] in Em.
        destruct p0 as [x| |arr|l|l|l|l|x|x]; try (injection Em as <- <-; apply outcome_none).
        + (* Unknown: a fresh VectorGet on the mapped operands *)
          apply bind_ok in Em as (vt & Evt & Em). apply bind_ok in Em as (et & Eet & Em).
          unfold emit in Em. injection Em as <- <-.
          split; [intros e E; injection E as <-; exact I|].
          split; [|intros _; cbn [snd]; rewrite !app_length; cbn [length]; lia].
          intros tape' vals1 V1 S1 R1. cbn [snd].
          destruct De0 as (D0 & Em0 & _). destruct De1 as (D1 & Em1 & _). cbn [snd] in Em0, Em1.
          destruct (sim_lookup _ _ _ _ _ _ S1 Em0 Ov0 Ot0) as (J0 & Vj0 & Tj0).
          destruct (sim_lookup _ _ _ _ _ _ S1 Em1 Ovi Ot1) as (J1 & Vj1 & Tj1).
          destruct V1 as (Lv1 & Hv1).
          assert (et = n_ty a).
          { unfold node_ty_at in Evt. apply bind_ok in Evt as (ndj & Ej & Evt). injection Evt as <-.
            apply znth_ok in Ej as (_ & Ej). rewrite (map_nth_error n_ty _ _ Ej) in Tj0. injection Tj0 as Tj0.
            rewrite Tj0 in Eet. cbn in Eet. now injection Eet as <-. }
          subst et.
          exists (vals1 ++ [v_a]). split; [|split; [|split]].
          * apply valuation_snoc; [split; auto|]. unfold node_sem. cbn [n_op n_deps n_ty from_tape].
            exists [v0; VArr [idx]], [TVector n (n_ty a); TScalar U64]. repeat split.
            -- pose proof (nth_error_Some_lt _ _ _ Vj0). pose proof (nth_error_Some_lt _ _ _ Vj1).
               cbn [mapM]. rewrite (dep_get_intro _ _ _ _ Vj0), (dep_get_intro _ _ _ _ Vj1) by lia. reflexivity.
            -- pose proof (nth_error_Some_lt _ _ _ Tj0) as X0. pose proof (nth_error_Some_lt _ _ _ Tj1) as X1.
               rewrite map_length in X0, X1.
               cbn [mapM]. rewrite (dep_get_intro _ _ _ _ Tj0), (dep_get_intro _ _ _ _ Tj1) by lia. reflexivity.
            -- unfold eval_node. cbn [nth nth_res bind arr_of st_of]. exact A4.
          * now apply sim_app.
          * split; [lia|]. split.
            -- exists v_a. split; auto. rewrite Nat2Z.id, <- Lv1. apply nth_error_snoc.
            -- exists a. eexists. split; auto. rewrite Nat2Z.id. split; [apply nth_error_snoc|reflexivity].
          * intros infer T1 Ta. apply (typed_nodes_snoc infer _ _ [TVector n (n_ty a); TScalar U64]); auto.
            -- pose proof (nth_error_Some_lt _ _ _ Tj0) as X0. pose proof (nth_error_Some_lt _ _ _ Tj1) as X1.
               rewrite map_length in X0, X1. cbn [n_deps mapM].
               rewrite (dep_get_intro _ _ _ _ Tj0), (dep_get_intro _ _ _ _ Tj1) by lia. reflexivity.
            -- cbn [n_ty n_op]. rewrite <- Eo. exact (Ta _ A3').
        + (* A2V *) destruct (proxy_of_elem _ _ _ De0) as (? & ? & _ & _ & []); discriminate.
        + (* Zip *) destruct (proxy_of_elem _ _ _ De0) as (? & ? & _ & _ & []); discriminate.
        + (* Vector *)
          destruct (proxy_of_elem _ _ _ De0) as (v0' & nd0 & Ov0' & Ot0' & Sh); [discriminate|].
          destruct Sh as (ds & ws & et & F1 & F2 & F3 & -> & Et & Bl).
          assert (v0 = VTup ws) by (eapply old_val_fun; eauto). subst v0.
          assert (Et0 : TVector n (n_ty a) = TVector (Z.of_nat (length l)) et) by (rewrite <- Et; eapply old_ty_fun; eauto).
          injection Et0 as -> <-.
          destruct (znth l idx) as [e| | |] eqn:Ez; try (injection Em as <- <-; apply outcome_none).
          injection Em as <- <-. apply znth_ok in Ez as (I0 & Ez).
          assert (Rg : 0 <= idx < 2 ^ 64) by (apply nth_error_Some_lt in Ez; lia).
          rewrite (as_u64_small _ Rg) in A4.
          destruct (Z.of_nat (length l) <=? idx) eqn:Cn; [discriminate|].
          cbn [tup_of bind] in A4. apply znth_ok in A4 as (K0 & A4).
          destruct (Forall2_nth_error _ _ _ _ _ F1 Ez) as (d & Ed' & Dd).
          destruct (Forall2_nth_error _ _ _ _ _ F2 Ed') as (w & Ew & Ow).
          rewrite Forall_forall in F3. pose proof (F3 d (nth_error_In _ _ Ed')) as Otd.
          eapply outcome_resolved; eauto; congruence.
    Qed.
  End Step.

  Variable infer : op -> list ty -> ty.

  Definition first_tape (pre : list node) (m : list (option Z)) : Prop :=
    forall i0 nd0 j, nth_error pre i0 = Some nd0 -> from_tape (n_op nd0) = true ->
                     nth_error m i0 = Some (Some j) ->
                     forall i', (i' < i0)%nat -> nth_error m i' <> Some (Some j).

  Lemma first_tape_ft pre post m : nodes = pre ++ post -> length m = length pre ->
    first_tape pre m -> ft_first from_tape nodes m.
  Proof.
    intros El L F i0 nd0 j E Ft G i' Li. pose proof (nth_error_Some_lt _ _ _ G) as L0.
    eapply F; eauto. rewrite El, nth_error_app1 in E by lia. exact E.
  Qed.

  (* the image of a mapped node carries (at least) its annotations *)
  Definition annots_incl (pre out : list node) (m : list (option Z)) : Prop :=
    forall i j, nth_error m i = Some (Some j) ->
                exists nd nd', nth_error pre i = Some nd /\ 0 <= j /\ nth_error out (Z.to_nat j) = Some nd' /\
                               incl (n_annots nd) (n_annots nd').

  Definition meta_sem (pre : list node) (st : meta_state * Z) : Prop :=
    let '(s, i) := st in
    i = Z.of_nat (length pre) /\ length (ms_map s) = length pre /\
    annots_incl pre (ms_out s) (ms_map s) /\
    bounded (ms_map s) (length (ms_out s)) /\
    meta_ok pre (ms_map s) (ms_meta s) /\
    first_tape pre (ms_map s) /\
    (typed_nodes infer nodes -> typed_nodes infer (ms_out s)) /\
    forall tape', tape_compat from_tape nodes (ms_map s) tape tape' ->
                  exists vals', valuation eval_node from_tape (ms_out s) tape' vals' /\
                                sim nodes (ms_out s) vals vals' (ms_map s).

  Lemma meta_sem_step pre a post st st' :
    nodes = pre ++ a :: post -> meta_sem pre st -> opt_meta_step o (Ok st) a = Ok st' ->
    meta_sem (pre ++ [a]) st'.
  Proof.
    destruct st as [s i], st' as [s' i'].
    intros El (I1 & I2 & Ian & I3 & Mo & I10 & Ity & I) St.
    rewrite opt_meta_step_eq in St. unfold meta_step' in St. cbn [bind] in St.
    destruct (negb _); [discriminate|].
    apply bind_ok in St as (deps & Ed & St). cbv zeta in St.
    apply bind_ok in St as ([out2 mn] & Em & St). apply bind_ok in St as (out3 & Ean & St).
    injection St as <- <-.
    assert (Ia : In a nodes) by (rewrite El; apply in_app_iff; right; left; auto).
    assert (Ea : nth_error nodes (length pre) = Some a).
    { rewrite El, nth_error_app2, Nat.sub_diag by lia. reflexivity. }
    destruct Hval as (Lv & Hv).
    destruct (nth_error vals (length pre)) as [v_a|] eqn:Ev.
    2:{ apply nth_error_None in Ev. apply nth_error_Some_lt in Ea. lia. }
    pose proof (Hv _ _ _ Ea Ev) as Na.
    set (out1 := ms_out s ++ [mkNode (n_op a) deps [] [] (n_ty a)]) in *.
    set (simple := Z.of_nat (length (ms_out s))) in *.
    set (nn := match mn with Some e => snd e | None => simple end) in *.
    pose proof (meta_node_of_sem pre a s v_a Ea Ev Mo I2 I3 deps Ed Ia Na out1 out2 mn eq_refl Em) as (Sh & Hc & Hnb).
    fold simple in Hc, Hnb. fold nn in Hc, Hnb.
    assert (Lo1 : (length (ms_out s) < length out1)%nat) by (unfold out1; rewrite app_length; cbn; lia).
    specialize (Hnb Lo1).
    pose proof (meta_node_of_ext _ _ _ _ _ _ _ Em) as ((extra & Eex & _) & Hplain).
    assert (Lo2 : (length (ms_out s) < length out2)%nat) by (rewrite Eex, app_length; lia).
    pose proof (add_annots_incl _ _ _ _ Ean) as (An1 & An2).
    apply add_annots_core in Ean.
    assert (Lo3 : length out3 = length out2).
    { apply (f_equal (@length _)) in Ean. now rewrite !map_length in Ean. }
    assert (Etape : from_tape (n_op a) = true -> nn = simple).
    { intros Ft. destruct (Hplain (tape_not_meta _ Ft)) as (_ & ->). reflexivity. }
    assert (First' : first_tape (pre ++ [a]) (ms_map s ++ [Some nn])).
    { intros i1 nd1 j1 E1 Ft Ej i'' Li.
      apply nth_error_snoc_inv in E1 as [(L1 & E1)|(-> & ->)].
      + rewrite nth_error_app1 in Ej by lia. rewrite nth_error_app1 by lia. eapply I10; eauto.
      + rewrite <- I2, nth_error_snoc in Ej. injection Ej as <-. rewrite (Etape Ft).
        rewrite nth_error_app1 by lia. intros X. apply I3 in X. unfold simple in X. lia. }
    assert (Ej : nth_error (ms_map s ++ [Some nn]) (length pre) = Some (Some nn)).
    { rewrite <- I2. apply nth_error_snoc. }
    assert (Build : forall tape', tape_compat from_tape nodes (ms_map s ++ [Some nn]) tape tape' ->
              exists vals2, valuation eval_node from_tape out2 tape' vals2 /\
                            sim nodes out2 vals vals2 (ms_map s ++ [Some nn]) /\
                            (typed_nodes infer nodes -> typed_nodes infer out2)).
    { intros tape' Tc.
      destruct (I tape' (tape_compat_prefix _ _ _ _ _ _ Tc)) as (vals' & V & S).
      destruct V as (Lv' & Hv').
      assert (V1 : valuation eval_node from_tape out1 tape' (vals' ++ [v_a])).
      { apply valuation_snoc; [split; auto|].
        eapply copy_node_sem; eauto. intros Ft. pose proof (Etape Ft) as En. unfold simple in En. rewrite <- En.
        eapply Tc; eauto. }
      assert (S1 : sim nodes out1 vals (vals' ++ [v_a]) (ms_map s)) by now apply sim_app.
      assert (R1 : rel nodes out1 vals (vals' ++ [v_a]) (length pre) simple).
      { split; [unfold simple; lia|]. split.
        - exists v_a. split; auto. unfold simple. rewrite Nat2Z.id, <- Lv'. apply nth_error_snoc.
        - exists a. eexists. split; auto. unfold simple, out1. rewrite Nat2Z.id.
          split; [apply nth_error_snoc|reflexivity]. }
      destruct (Hc tape' _ V1 S1 R1) as (vals2 & V2 & S2 & R2 & T2).
      exists vals2. split; auto. split.
      - apply sim_snoc; auto. intros j E; injection E as <-. now rewrite I2.
      - intros Htn. destruct (Htn _ _ Ea) as (dts_a & Da & Tya). apply T2.
        + unfold out1. apply (typed_nodes_snoc infer _ _ dts_a); auto.
          cbn [n_deps]. eapply deps_tys; eauto.
        + intros dts D. rewrite Da in D. injection D as <-. exact Tya. }
    cbn [meta_sem ms_map ms_out ms_meta]. rewrite !app_length; cbn [length]. splits; try lia; auto.
    - intros i0 j0 E0. apply nth_error_snoc_inv in E0 as [(L0 & E0)|(-> & E0)].
      + destruct (Ian _ _ E0) as (nd & nd' & N1 & J & N2 & Inc).
        assert (N2' : nth_error out2 (Z.to_nat j0) = Some nd').
        { rewrite Eex. unfold out1. now apply nth_error_app1', nth_error_app1'. }
        destruct (An1 _ _ N2') as (nd3 & N3 & Inc3).
        exists nd, nd3. repeat split; auto using nth_error_app1'. eapply incl_tran; eauto.
      + injection E0 as ->. destruct Hnb as (Hn0 & Hn1).
        assert (exists nd2, nth_error out2 (Z.to_nat nn) = Some nd2) as (nd2 & N2).
        { clear An1 An2. destruct (nth_error out2 (Z.to_nat nn)) eqn:X; eauto. apply nth_error_None in X. lia. }
        destruct (An2 _ Hn0 N2) as (nd3 & N3 & Inc3).
        exists a, nd3. rewrite I2, nth_error_snoc. repeat split; auto.
    - rewrite Lo3. apply bounded_snoc; [eapply bounded_mono; eauto; lia|].
      intros j E; injection E as <-. exact Hnb.
    - assert (Mx : meta_ok (pre ++ [a]) (ms_map s ++ [Some nn]) (ms_meta s)) by now apply meta_ok_ext.
      destruct mn as [e|]; auto.
      apply (meta_ok_snoc _ _ _ _ _ v_a a); auto.
      + lia.
      + subst i. rewrite Nat2Z.id, <- I2. apply nth_error_snoc.
      + subst i. now rewrite Nat2Z.id.
      + subst i. now rewrite Nat2Z.id.
      + rewrite <- (app_nil_r (ms_meta s)). apply shape_ok_mono. now apply Sh.
    - assert (Ff : ft_first from_tape nodes (ms_map s ++ [Some nn])).
      { apply (first_tape_ft (pre ++ [a]) post); auto.
        - rewrite El, <- app_assoc. reflexivity.
        - rewrite !app_length; cbn [length]. lia. }
      destruct (Build _ (transport_compat _ _ _ tape Ff)) as (vals2 & _ & _ & T2).
      intros Htn. eapply typed_nodes_core; [symmetry; exact Ean|exact (T2 Htn)].
    - intros tape' Tc. destruct (Build tape' Tc) as (vals2 & V2 & S2 & _).
      exists vals2. split.
      + eapply valuation_core; [symmetry; exact Ean|exact V2].
      + eapply sim_core; [symmetry; exact Ean|exact S2].
  Qed.

  Lemma meta_sem_inv sN :
    fold_left (opt_meta_step o) nodes (Ok (mkMS [] [] [] None, 0)) = Ok sN -> meta_sem nodes sN.
  Proof.
    apply (fold_res_inv (opt_meta_step o) meta_sem).
    - apply opt_meta_step_strict.
    - cbn. splits; auto using bounded_nil.
      + intros [|i0] j E; discriminate.
      + intros i0 e [].
      + intros [|i0] nd0 j E; discriminate.
      + intros _ [|i0] nd0 E; discriminate.
      + intros tape' _. exists []. split; [apply valuation_nil|apply sim_nil].
    - intros pre a post s s' El I St. eapply meta_sem_step; eauto.
  Qed.
End MetaSem.

(* value preservation of the meta-operation pass on graphs without ArrayToVector and Zip *)
Theorem meta_sem_thm infer nodes o p tape vals :
  valuation eval_node from_tape nodes tape vals ->
  const_typed nodes ->
  (forall nd, In nd nodes -> Z.of_nat (length (n_deps nd)) < 2 ^ 64) ->
  (forall nd, In nd nodes -> simple_meta (n_op nd) = true) ->
  (bits_ops nodes ->
   forall i nd v, nth_error nodes i = Some nd -> nth_error vals i = Some v -> has_type v (n_ty nd) = true) ->
  meta_typed nodes ->
  opt_meta nodes o = Ok p ->
  ft_first from_tape nodes (po_map p) /\
  (typed_nodes infer nodes -> typed_nodes infer (po_nodes p)) /\
  annots_incl nodes (po_nodes p) (po_map p) /\
  forall tape', tape_compat from_tape nodes (po_map p) tape tape' ->
    exists vals', valuation eval_node from_tape (po_nodes p) tape' vals' /\
                  sim nodes (po_nodes p) vals vals' (po_map p).
Proof.
  intros V Ct Rg Sm Vt Ty H. rewrite opt_meta_unfold in H.
  apply bind_ok in H as ([s i] & E & H). injection H as <-. cbn [po_nodes po_map].
  apply (meta_sem_inv nodes o tape vals V Ct Rg Sm Vt Ty infer) in E as (_ & L & An & _ & _ & F & T & I).
  split; [|split; [auto|split; auto]]. eapply first_tape_ft with (pre := nodes) (post := []); eauto. now rewrite app_nil_r.
Qed.

(* Valuations: a relational characterisation of eval_graph_nodes, generic in the node semantics
   [sem] and in the set [ft] of operations read from the tape; the simulation relation between an
   old and a new node list along an old->new map; transported tapes. *)
From CC Require Import Base.Prelude Base.Scalar Base.Ty Base.Shape Graph.Value Graph.IR Graph.Eval
  Model.Opt Model.Uniquify Proofs.OptBase.

(* dependency d of the node at position n, read from a list indexed by node id *)
Definition dep_get {A} (l : list A) (n : nat) (d : Z) : result A :=
  if (d <? 0) || (Z.of_nat n <=? d) then Panic else nth_res l (Z.to_nat d).

Lemma dep_get_ok {A} (l : list A) n d x :
  dep_get l n d = Ok x <-> 0 <= d < Z.of_nat n /\ nth_error l (Z.to_nat d) = Some x.
Proof.
  unfold dep_get. destruct ((d <? 0) || (Z.of_nat n <=? d)) eqn:E.
  - split; [discriminate|]. intros (H & _). lia.
  - rewrite nth_res_ok. split; [intros; split; [lia|auto]|tauto].
Qed.

Lemma dep_get_app {A} (l l' : list A) n d : (n <= length l)%nat -> dep_get (l ++ l') n d = dep_get l n d.
Proof.
  intros L. unfold dep_get. destruct ((d <? 0) || (Z.of_nat n <=? d)) eqn:E; auto.
  rewrite !nth_res_total. rewrite nth_error_app1 by lia. reflexivity.
Qed.

(* every dependency of a node precedes it *)
Definition wf_nodes (nodes : list node) : Prop :=
  forall i nd d, nth_error nodes i = Some nd -> In d (n_deps nd) -> 0 <= d < Z.of_nat i.

Section Gen.
  Variable sem : op -> list ty -> ty -> list value -> result value.
  Variable ft : op -> bool.

  (* v is the value of node nd at position i, given the types and values of the earlier nodes *)
  Definition node_sem (tys : list ty) (vals : list value) (tape : Z -> option value)
             (i : nat) (nd : node) (v : value) : Prop :=
    if ft (n_op nd) then tape (Z.of_nat i) = Some v
    else exists vs dts,
        mapM (dep_get vals i) (n_deps nd) = Ok vs /\
        mapM (dep_get tys i) (n_deps nd) = Ok dts /\
        sem (n_op nd) dts (n_ty nd) vs = Ok v.

  Definition valuation (nodes : list node) (tape : Z -> option value) (vals : list value) : Prop :=
    length vals = length nodes /\
    forall i nd v, nth_error nodes i = Some nd -> nth_error vals i = Some v ->
                   node_sem (map n_ty nodes) vals tape i nd v.

  Lemma node_sem_app tys tys' vals vals' tape i nd v :
    (i <= length tys)%nat -> (i <= length vals)%nat ->
    node_sem (tys ++ tys') (vals ++ vals') tape i nd v <-> node_sem tys vals tape i nd v.
  Proof.
    intros L1 L2. unfold node_sem. destruct (ft (n_op nd)); [tauto|].
    rewrite (mapM_ext (dep_get (vals ++ vals') i) (dep_get vals i)) by (intros; now apply dep_get_app).
    rewrite (mapM_ext (dep_get (tys ++ tys') i) (dep_get tys i)) by (intros; now apply dep_get_app).
    tauto.
  Qed.

  Lemma node_sem_fun tys vals tape i nd v1 v2 :
    node_sem tys vals tape i nd v1 -> node_sem tys vals tape i nd v2 -> v1 = v2.
  Proof.
    unfold node_sem. destruct (ft (n_op nd)); [congruence|].
    intros (vs & dts & A1 & A2 & A3) (vs' & dts' & B1 & B2 & B3). congruence.
  Qed.

  Lemma valuation_nil tape : valuation [] tape [].
  Proof. split; auto. intros [|i]; discriminate. Qed.

  Lemma valuation_snoc nodes tape vals nd v :
    valuation nodes tape vals -> node_sem (map n_ty nodes) vals tape (length nodes) nd v ->
    valuation (nodes ++ [nd]) tape (vals ++ [v]).
  Proof.
    intros (L & H) Hn. split; [rewrite !app_length; cbn; lia|].
    intros i nd0 v0 E1 E2. rewrite map_app.
    apply nth_error_snoc_inv in E1 as [(Li & E1)|(-> & ->)].
    - rewrite nth_error_app1 in E2 by lia.
      apply node_sem_app; [rewrite map_length; lia|lia|]. eauto.
    - rewrite <- L in E2. rewrite nth_error_snoc in E2. injection E2 as <-.
      apply node_sem_app; [rewrite map_length; lia|lia|]. auto.
  Qed.

  Lemma valuation_snoc_inv nodes tape vals nd :
    valuation (nodes ++ [nd]) tape vals ->
    exists vals0 v, vals = vals0 ++ [v] /\ valuation nodes tape vals0 /\
                    node_sem (map n_ty nodes) vals0 tape (length nodes) nd v.
  Proof.
    intros (L & H). rewrite app_length in L; cbn in L.
    destruct (@exists_last _ vals) as (vals0 & v & ->); [destruct vals; cbn in L; [lia|discriminate]|].
    rewrite app_length in L; cbn in L. assert (L0 : length vals0 = length nodes) by lia.
    exists vals0, v. split; auto. split; [split; auto|].
    - intros i nd0 v0 E1 E2.
      pose proof (nth_error_Some_lt _ _ _ E1) as Li.
      specialize (H i nd0 v0 (nth_error_app1' _ _ _ _ E1) (nth_error_app1' _ _ _ _ E2)).
      rewrite map_app in H. apply node_sem_app in H; auto; [rewrite map_length|]; lia.
    - specialize (H (length nodes) nd v (nth_error_snoc _ _)).
      assert (E : nth_error (vals0 ++ [v]) (length nodes) = Some v) by (rewrite <- L0; apply nth_error_snoc).
      specialize (H E).
      rewrite map_app in H. apply node_sem_app in H; auto; [rewrite map_length|]; lia.
  Qed.

  (* determinism: a node list has at most one valuation under a tape *)
  Lemma valuation_fun nodes : forall tape vals1 vals2,
    valuation nodes tape vals1 -> valuation nodes tape vals2 -> vals1 = vals2.
  Proof.
    induction nodes as [|nd nodes IH] using rev_ind; intros tape vals1 vals2 H1 H2.
    - destruct H1 as (L1 & _), H2 as (L2 & _). destruct vals1, vals2; cbn in *; auto; discriminate.
    - apply valuation_snoc_inv in H1 as (a1 & v1 & -> & A1 & N1).
      apply valuation_snoc_inv in H2 as (a2 & v2 & -> & A2 & N2).
      assert (a1 = a2) by eauto. subst a2. f_equal. f_equal. eapply node_sem_fun; eauto.
  Qed.

  (* the forward evaluator this predicate characterises *)
  Definition gstep (tape : Z -> option value) (acc : result (list value * list ty)) (nd : node)
    : result (list value * list ty) :=
    let* (vals, tys) := acc in
    let n := length vals in
    let* v := if ft (n_op nd) then match tape (Z.of_nat n) with Some v => Ok v | None => Err end
              else let* vs := mapM (dep_get vals n) (n_deps nd) in
                   let* dts := mapM (dep_get tys n) (n_deps nd) in
                   sem (n_op nd) dts (n_ty nd) vs in
    Ok (vals ++ [v], tys ++ [n_ty nd]).
  Definition geval (nodes : list node) (tape : Z -> option value) : result (list value) :=
    let* (vals, _) := fold_left (gstep tape) nodes (Ok ([], [])) in Ok vals.

  Lemma gstep_node_sem tape vals tys nd v :
    (exists r, gstep tape (Ok (vals, tys)) nd = Ok r /\ fst r = vals ++ [v])
    <-> node_sem tys vals tape (length vals) nd v.
  Proof.
    unfold gstep, node_sem. cbn [bind]. destruct (ft (n_op nd)).
    - destruct (tape (Z.of_nat (length vals))) as [w|]; cbn [bind]; split.
      + intros (r & E & F). injection E as <-. cbn in F. apply app_inj_tail in F as (_ & ->). auto.
      + intros E. injection E as ->. eexists; split; eauto.
      + intros (r & E & _). discriminate.
      + discriminate.
    - split.
      + intros (r & E & F). apply bind_ok in E as (w & Ew & E). injection E as <-. cbn in F.
        apply app_inj_tail in F as (_ & ->).
        apply bind_ok in Ew as (vs & E1 & Ew). apply bind_ok in Ew as (dts & E2 & Ew). eauto.
      + intros (vs & dts & A1 & A2 & A3). rewrite A1; cbn [bind]. rewrite A2; cbn [bind]. rewrite A3; cbn [bind].
        eexists; split; eauto.
  Qed.

  Lemma gfold_valuation tape nodes : forall vals tys,
    fold_left (gstep tape) nodes (Ok ([], [])) = Ok (vals, tys)
    <-> valuation nodes tape vals /\ tys = map n_ty nodes.
  Proof.
    induction nodes as [|nd nodes IH] using rev_ind; intros vals tys.
    - cbn. split.
      + intros H; injection H as <- <-. split; auto. apply valuation_nil.
      + intros ((L & _) & ->). destruct vals; [auto|discriminate].
    - rewrite fold_left_app. cbn [fold_left]. split.
      + intros H.
        assert (exists s, fold_left (gstep tape) nodes (Ok ([], [])) = Ok s) as ([vals0 tys0] & E).
        { clear IH. destruct (fold_left (gstep tape) nodes (Ok ([], []))); try discriminate H; eauto. }
        rewrite E in H. apply IH in E as (V0 & ->).
        pose proof H as H'. unfold gstep in H'. cbn [bind] in H'. bind_inv H'. injection H' as <- <-.
        split; [|now rewrite map_app].
        apply valuation_snoc; auto. destruct V0 as (L0 & _). rewrite <- L0.
        apply gstep_node_sem. eexists; split; eauto.
      + intros (V & ->). apply valuation_snoc_inv in V as (vals0 & v & -> & V0 & N).
        assert (E : fold_left (gstep tape) nodes (Ok ([], [])) = Ok (vals0, map n_ty nodes)) by (apply IH; auto).
        rewrite E. destruct V0 as (L0 & _). rewrite <- L0 in N.
        apply gstep_node_sem in N as ([r1 r2] & Er & Fr). rewrite Er. cbn in Fr. subst r1.
        unfold gstep in Er. cbn [bind] in Er. bind_inv Er. injection Er as _ <-. now rewrite map_app.
  Qed.

  Theorem geval_valuation nodes tape vals : geval nodes tape = Ok vals <-> valuation nodes tape vals.
  Proof.
    unfold geval. split.
    - intros H. bind_inv H. destruct a as [v t]. injection H as <-. apply gfold_valuation in E. tauto.
    - intros V. assert (E : fold_left (gstep tape) nodes (Ok ([], [])) = Ok (vals, map n_ty nodes))
        by (apply gfold_valuation; auto).
      now rewrite E.
  Qed.
End Gen.

(* ------------------------------------------------------------------ link with Graph.Eval *)
Lemma nth_error_rev_idx {A} (l : list A) k : (k < length l)%nat ->
  nth_error (rev l) (length l - 1 - k) = nth_error l k.
Proof.
  revert k. induction l as [|x l IH]; intros k L; cbn [length] in *; [lia|].
  cbn [rev]. destruct k as [|k].
  - replace (S (length l) - 1 - 0)%nat with (length (rev l)) by (rewrite rev_length; lia).
    rewrite nth_error_snoc. reflexivity.
  - cbn [nth_error]. rewrite nth_error_app1 by (rewrite rev_length; lia).
    replace (S (length l) - 1 - S k)%nat with (length l - 1 - k)%nat by lia. apply IH. lia.
Qed.

Lemma env_get_dep_get {A} (l : list A) n d : n = length l ->
  (if (d <? 0) || (Z.of_nat n <=? d) then Panic else nth_res (rev l) (n - 1 - Z.to_nat d)) = dep_get l n d.
Proof.
  intros ->. unfold dep_get. destruct ((d <? 0) || (Z.of_nat (length l) <=? d)) eqn:E; auto.
  rewrite !nth_res_total, nth_error_rev_idx by lia. reflexivity.
Qed.

Definition egstep (tape : Z -> option value) :=
  (fun (acc : result (env * nat * list ty)) (nd : node) =>
     let* (e, n, tys) := acc in
     let* v :=
       if from_tape (n_op nd) then
         match tape (Z.of_nat n) with Some v => Ok v | None => Err end
       else
         let* vs := mapM (env_get e n) (n_deps nd) in
         let* dts := mapM (fun id => if (id <? 0) || (Z.of_nat n <=? id) then Panic
                                     else nth_res tys (n - 1 - Z.to_nat id)) (n_deps nd) in
         eval_node (n_op nd) dts (n_ty nd) vs in
     Ok (v :: e, S n, n_ty nd :: tys)).

Lemma eval_graph_nodes_unfold nodes tape :
  eval_graph_nodes nodes tape = let* (e, _, _) := fold_left (egstep tape) nodes (Ok ([], O, [])) in Ok (rev e).
Proof. reflexivity. Qed.

Lemma egfold_gfold tape nodes :
  fold_left (egstep tape) nodes (Ok ([], O, []))
  = rmap (fun p : list value * list ty => (rev (fst p), length (fst p), rev (snd p)))
         (fold_left (gstep eval_node from_tape tape) nodes (Ok ([], []))).
Proof.
  induction nodes as [|nd nodes IH] using rev_ind; [reflexivity|].
  rewrite !fold_left_app. cbn [fold_left]. rewrite IH.
  destruct (fold_left (gstep eval_node from_tape tape) nodes (Ok ([], []))) as [[vals tys]| | |] eqn:E; try reflexivity.
  apply gfold_valuation in E as ((L & _) & ->).
  cbn [rmap fst snd]. unfold egstep, gstep. cbn [bind].
  rewrite (mapM_ext (env_get (rev vals) (length vals)) (dep_get vals (length vals)))
    by (intros; unfold env_get; now apply env_get_dep_get).
  rewrite (mapM_ext (fun id => if (id <? 0) || (Z.of_nat (length vals) <=? id) then Panic
                               else nth_res (rev (map n_ty nodes)) (length vals - 1 - Z.to_nat id))
                    (dep_get (map n_ty nodes) (length vals)))
    by (intros; apply env_get_dep_get; now rewrite map_length).
  destruct (if from_tape (n_op nd) then _ else _) as [v| | |]; cbn [bind rmap fst snd]; auto.
  rewrite !rev_app_distr, app_length. cbn. repeat f_equal. lia.
Qed.

Theorem eval_graph_nodes_geval nodes tape : eval_graph_nodes nodes tape = geval eval_node from_tape nodes tape.
Proof.
  rewrite eval_graph_nodes_unfold, egfold_gfold. unfold geval.
  destruct (fold_left (gstep eval_node from_tape tape) nodes (Ok ([], []))) as [[vals tys]| | |]; cbn; auto.
  now rewrite rev_involutive.
Qed.

(* A: eval_graph_nodes returns vals exactly when vals assigns to every position the tape entry
   (tape operations) or eval_node applied to the types and values of the dependencies *)
Theorem eval_graph_nodes_valuation nodes tape vals :
  eval_graph_nodes nodes tape = Ok vals <-> valuation eval_node from_tape nodes tape vals.
Proof. rewrite eval_graph_nodes_geval. apply geval_valuation. Qed.

(* C01 bridge: the ring reading [reval_Z] (Model/RingEval.v, Model/RingEvalInst.v) agrees with the
   evaluator model [eval_graph_nodes] (Graph/Eval.v) on every graph of the elementwise fragment
   ([wf_ring_graph], Model/RingEvalWf.v) under every tape of the right shape ([wf_ring_tape]).
   Forward induction over the node list: the evaluator's fold and the reading's recursion carry
   the same accumulators; the invariant [rels] relates, type-directed, the reading's value and
   the evaluator's value of every node. *)
From CC Require Import Base.Prelude Base.Scalar Base.Ty Base.Shape Graph.Value Graph.IR Graph.Eval
  Model.RingEval Model.RingEvalInst Model.RingEvalWf Proofs.EvalProofs.
From CC Require Proofs.EvalSpecBase.
From CC Require Import Proofs.OptBase Proofs.OptSem.

(* ------------------------------------------------------------------ arithmetic kernels *)
Lemma zip_with_agree (f g : Z -> Z -> Z) a b :
  (forall x y, f x y = g x y) -> Eval.zip_with f a b = RingEvalInst.zip_with g a b.
Proof.
  intros H. revert b. induction a as [|x a IH]; intros [|y b]; cbn [Eval.zip_with RingEvalInst.zip_with]; auto.
  now rewrite H, IH.
Qed.

Lemma ring_zip_length f a b k : length a = k -> length b = k -> length (RingEvalInst.zip_with f a b) = k.
Proof.
  revert b k. induction a as [|x a IH]; intros [|y b] k La Lb; cbn [RingEvalInst.zip_with length] in *; try lia.
  destruct k as [|k]; [lia|]. f_equal. apply IH; lia.
Qed.

Lemma modulus_ring T : modulus (st_of T) = RingEvalInst.m (ring_w T).
Proof. reflexivity. Qed.

(* ------------------------------------------------------------------ broadcasting a shape to itself *)
Lemma map_nth_zrange (a : list Z) :
  map (fun i => nth (Z.to_nat i) a 0) (zrange (Z.of_nat (length a))) = a.
Proof.
  apply nth_ext with (d := 0) (d' := 0).
  - rewrite map_length, EvalSpecBase.zrange_length. lia.
  - intros k Hk. rewrite map_length, EvalSpecBase.zrange_length in Hk.
    replace k with (Z.to_nat (Z.of_nat k)) at 1 by lia.
    rewrite EvalSpecBase.nth_map_zrange by lia. f_equal. lia.
Qed.

Lemma broadcast_id a sh :
  valid_shape sh -> length a = Z.to_nat (prod_list sh) -> broadcast_to_shape a sh sh = Ok a.
Proof.
  intros Hv La. pose proof (prod_list_pos sh Hv) as Hp.
  unfold broadcast_to_shape. rewrite Nat.ltb_irrefl, Nat.sub_diag.
  rewrite (EvalSpecBase.mapM_zrange_ok _ (fun i => nth (Z.to_nat i) a 0)).
  - f_equal. replace (prod_list sh) with (Z.of_nat (length a)) by lia. apply map_nth_zrange.
  - intros i Hi. destruct (number_to_index_inverse sh i Hv Hi) as (idx & E & Hin & Hf).
    rewrite E. cbn [bind skipn]. rewrite index_to_number_flat_pos by auto. cbn [bind]. rewrite Hf.
    apply EvalSpecBase.znth_ok. lia.
Qed.

Lemma wf_ring_type_leaf T : wf_ring_type T = true -> is_leaf T = true.
Proof. unfold wf_ring_type. intros H. now apply andb_true_iff in H. Qed.

Lemma wf_ring_type_valid T : wf_ring_type T = true -> valid_shape (dims T).
Proof.
  unfold wf_ring_type. intros H. apply andb_true_iff in H as (_ & H).
  unfold valid_shape. apply Forall_forall. intros d Hd.
  rewrite forallb_forall in H. specialize (H d Hd). lia.
Qed.

Lemma ring_n_pos T : wf_ring_type T = true -> (1 <= ring_n T)%nat.
Proof. intros H. pose proof (prod_list_pos _ (wf_ring_type_valid T H)). unfold ring_n. lia. Qed.

Lemma eval_arith_same (k : scalar -> Z -> Z -> Z) T a b :
  wf_ring_type T = true -> length a = ring_n T -> length b = ring_n T ->
  eval_arith k T T T (VArr a) (VArr b) = Ok (VArr (Eval.zip_with (k (st_of T)) a b)).
Proof.
  intros HT La Lb. pose proof (wf_ring_type_valid T HT) as Hv. pose proof (wf_ring_type_leaf T HT) as Hl.
  unfold eval_arith. rewrite Hl. cbn [andb negb arr_of bind].
  rewrite !broadcast_id by auto. cbn [bind].
  destruct T; try discriminate Hl; reflexivity.
Qed.

Lemma const_of_type_leaf c T : is_leaf T = true -> const_of_type c T = VArr (repeat c (ring_n T)).
Proof. destruct T; try discriminate; reflexivity. Qed.

Lemma ty_eqb_refl t : ty_eqb t t = true.
Proof.
  induction t as [s|sh s|n t IH|ts IH|fs IH] using ty_ind'; cbn [ty_eqb].
  - now apply scalar_eqb_eq.
  - rewrite list_eqb_refl by (intros; lia). now apply scalar_eqb_eq.
  - rewrite IH. replace (n =? n) with true by lia. reflexivity.
  - induction IH as [|x xs Hx _ IHl]; auto. now rewrite Hx, IHl.
  - induction IH as [|x xs Hx _ IHl]; auto. now rewrite String.eqb_refl, Hx, IHl.
Qed.

Lemma ty_eqb_false a b : ty_eqb a b = false -> a <> b.
Proof. intros H ->. rewrite ty_eqb_refl in H. discriminate. Qed.

Lemma list_Z_eqb_refl (l : list Z) : eqb l l = true.
Proof. apply list_eqb_refl. intros x. unfold eqb, Eqb_Z. lia. Qed.

(* ------------------------------------------------------------------ the reading's own recursion *)
Notation RV := (rval (list Z)).

Definition rvs_match : list RV -> list value -> bool :=
  fix go (l : list RV) (vs : list value) : bool :=
    match l, vs with
    | [], [] => true
    | a :: l', b :: vs' => rv_matches a b && go l' vs'
    | _, _ => false
    end.

Lemma rv_matches_tup l vs : rv_matches (RTup _ l) (VTup vs) = rvs_match l vs.
Proof. reflexivity. Qed.

Lemma rv_matches_in_of_value v : rv_matches (in_of_value v) v = true.
Proof.
  induction v as [es|vs IH] using value_ind'.
  - cbn [in_of_value rv_matches]. apply list_Z_eqb_refl.
  - cbn [in_of_value]. rewrite rv_matches_tup.
    induction IH as [|x xs Hx _ IHl]; cbn [map rvs_match]; auto. now rewrite Hx, IHl.
Qed.

Lemma reval_node_zeros (R : Type) r0 radd rmul rsub atom catom one i t :
  is_leaf t = true -> reval_node R r0 radd rmul rsub atom catom one i (OZeros t) [] = Some (RLeaf R r0).
Proof. destruct t; try discriminate; reflexivity. Qed.
Lemma reval_node_ones (R : Type) r0 radd rmul rsub atom catom one i t :
  is_leaf t = true -> reval_node R r0 radd rmul rsub atom catom one i (OOnes t) [] = Some (RLeaf R one).
Proof. destruct t; try discriminate; reflexivity. Qed.
Lemma reval_node_constant (R : Type) r0 radd rmul rsub atom catom one i t v :
  is_leaf t = true -> reval_node R r0 radd rmul rsub atom catom one i (OConstant t v) [] = Some (RLeaf R (catom v)).
Proof. destruct t; try discriminate; reflexivity. Qed.

Section Bridge.
  Variable T : ty.
  Variable tape : Z -> option value.
  Hypothesis HT : wf_ring_type T = true.

  Let w := ring_w T.
  Let n := ring_n T.

  (* one step of the reading *)
  Definition rstep (env : list RV) (nd : node) (ins : list RV) : option (RV * list RV) :=
    if is_input_op (n_op nd) then
      match ins with v :: ins' => Some (v, ins') | [] => None end
    else
      match mapM (fun d => znth env d) (n_deps nd) with
      | Ok vs =>
          match reval_node (list Z) (repeat 0 n) (za w) (zm w) (zs w) (zatom tape) zcatom (repeat 1 n)
                           (Z.of_nat (length env)) (n_op nd) vs with
          | Some v => Some (v, ins)
          | None => None
          end
      | _ => None
      end.

  Lemma reval_cons nd r env ins :
    reval_Z w n tape (nd :: r) env ins
    = match rstep env nd ins with
      | Some (v, ins') => reval_Z w n tape r (env ++ [v]) ins'
      | None => None
      end.
  Proof.
    unfold reval_Z, rstep. cbn [reval].
    destruct (n_op nd); cbn [is_input_op];
      try (destruct ins; reflexivity);
      (destruct (mapM (fun d => znth env d) (n_deps nd)); [|reflexivity..]);
      match goal with |- context [reval_node ?a ?b ?c ?d ?e ?f ?g ?h ?i ?o ?l] =>
        destruct (reval_node a b c d e f g h i o l) end; reflexivity.
  Qed.

  (* one step of the evaluator model *)
  Definition estep (vals : list value) (tys : list ty) (nd : node) : result value :=
    let k := length vals in
    if from_tape (n_op nd) then match tape (Z.of_nat k) with Some v => Ok v | None => Err end
    else let* vs := mapM (dep_get vals k) (n_deps nd) in
         let* dts := mapM (dep_get tys k) (n_deps nd) in
         eval_node (n_op nd) dts (n_ty nd) vs.

  Lemma gstep_estep vals tys nd :
    gstep eval_node from_tape tape (Ok (vals, tys)) nd
    = let* v := estep vals tys nd in Ok (vals ++ [v], tys ++ [n_ty nd]).
  Proof. reflexivity. Qed.

  (* ---------------------------------------------------------------- the invariant *)
  (* type-directed relation between the reading's value and the evaluator's value of a node *)
  Inductive rel : ty -> RV -> value -> Prop :=
  | rel_leaf es : length es = n -> rel T (RLeaf _ es) (VArr es)
  | rel_tup ts l vs : rels ts l vs -> rel (TTuple ts) (RTup _ l) (VTup vs)
  | rel_other t rv v : t <> T -> is_tuple_ty t = false -> rv_matches rv v = true -> rel t rv v
  with rels : list ty -> list RV -> list value -> Prop :=
  | rels_nil : rels [] [] []
  | rels_cons t rv v ts l vs : rel t rv v -> rels ts l vs -> rels (t :: ts) (rv :: l) (v :: vs).

  Scheme rel_mut := Minimality for rel Sort Prop
    with rels_mut := Minimality for rels Sort Prop.

  Lemma T_not_tuple ts : T <> TTuple ts.
  Proof. intros E. pose proof (wf_ring_type_leaf T HT) as Hl. rewrite E in Hl. discriminate. Qed.

  Lemma rel_T_inv rv v : rel T rv v -> exists es, rv = RLeaf _ es /\ v = VArr es /\ length es = n.
  Proof.
    intros H. inversion H as [es L E1 E2 E3|ts l vs Hr E1 E2 E3|t rv' v' Hn Ht Hm E1 E2 E3]; subst.
    - eauto.
    - exfalso. eapply T_not_tuple; eauto.
    - congruence.
  Qed.

  Lemma rel_tup_inv ts rv v : rel (TTuple ts) rv v ->
    exists l vs, rv = RTup _ l /\ v = VTup vs /\ rels ts l vs.
  Proof.
    intros H. inversion H as [es L E1 E2 E3|ts' l vs Hr E1 E2 E3|t rv' v' Hn Ht Hm E1 E2 E3]; subst.
    - exfalso. eapply T_not_tuple; eauto.
    - eauto.
    - discriminate.
  Qed.

  Lemma rels_length ts l vs : rels ts l vs -> length l = length ts /\ length vs = length ts.
  Proof. induction 1 as [|t rv v ts l vs _ _ (IH1 & IH2)]; cbn [length]; auto. Qed.

  Lemma rels_nth ts l vs : rels ts l vs -> forall i t, nth_error ts i = Some t ->
    exists rv v, nth_error l i = Some rv /\ nth_error vs i = Some v /\ rel t rv v.
  Proof.
    induction 1 as [|t0 rv0 v0 ts l vs H0 _ IH]; intros [|i] t E; cbn [nth_error] in *; try discriminate.
    - injection E as <-. eauto.
    - eauto.
  Qed.

  Lemma rels_snoc ts l vs t rv v : rels ts l vs -> rel t rv v -> rels (ts ++ [t]) (l ++ [rv]) (vs ++ [v]).
  Proof.
    induction 1 as [|t0 rv0 v0 ts l vs H0 _ IH]; intros Hr; cbn [app].
    - constructor; [auto|constructor].
    - constructor; auto.
  Qed.

  Lemma rel_matches t rv v : rel t rv v -> rv_matches rv v = true.
  Proof.
    intros H. revert t rv v H.
    apply (rel_mut (fun _ rv v => rv_matches rv v = true) (fun _ l vs => rvs_match l vs = true)).
    - intros es _. cbn [rv_matches]. apply list_Z_eqb_refl.
    - intros ts l vs _ IH. now rewrite rv_matches_tup.
    - auto.
    - reflexivity.
    - intros t rv v ts l vs _ H1 _ H2. cbn [rvs_match]. fold rvs_match. now rewrite H1, H2.
  Qed.

  (* values read from the tape *)
  Lemma shape_ok_T v : ring_shape_ok T T v = true -> exists es, v = VArr es /\ length es = n.
  Proof.
    destruct v as [es|vs]; cbn [ring_shape_ok]; rewrite ty_eqb_refl; [|discriminate].
    intros H. exists es. split; auto. unfold n. lia.
  Qed.

  Lemma shape_ok_rel v : forall t, ring_shape_ok T t v = true -> rel t (in_of_value v) v.
  Proof.
    induction v as [es|vs IH] using value_ind'; intros t; cbn [ring_shape_ok in_of_value].
    - destruct (ty_eqb t T) eqn:E.
      + apply ty_eqb_eq in E. subst t. intros H. apply rel_leaf. unfold n. lia.
      + apply ty_eqb_false in E. intros H. apply rel_other; auto.
        * destruct t; auto; discriminate.
        * cbn [rv_matches]. apply list_Z_eqb_refl.
    - destruct (ty_eqb t T) eqn:E; [discriminate|]. apply ty_eqb_false in E.
      destruct t as [s|sh s|m t1|ts|fs]; intros H;
        try (apply rel_other; auto; apply (rv_matches_in_of_value (VTup vs))).
      apply rel_tup. clear E. revert ts H.
      induction IH as [|x xs Hx _ IHl]; intros [|t1 ts] H; try discriminate; cbn [map].
      + constructor.
      + apply andb_true_iff in H as (H1 & H2). constructor; auto.
  Qed.

  (* ---------------------------------------------------------------- dependency lookup *)
  Lemma dep_lookup tys env vals d t :
    rels tys env vals -> ty_at tys d = Some t ->
    exists rv v, znth env d = Ok rv /\ dep_get vals (length vals) d = Ok v /\
                 dep_get tys (length vals) d = Ok t /\ rel t rv v.
  Proof.
    intros Hr E. unfold ty_at in E. destruct (d <? 0) eqn:Ed; [discriminate|].
    destruct (rels_length _ _ _ Hr) as (L1 & L2).
    destruct (rels_nth _ _ _ Hr _ _ E) as (rv & v & E1 & E2 & Hrel).
    pose proof (nth_error_Some_lt _ _ _ E) as Lt.
    exists rv, v. split; [|split; [|split]]; auto.
    - apply znth_ok. split; [lia|auto].
    - apply dep_get_ok. split; [lia|auto].
    - apply dep_get_ok. split; [lia|auto].
  Qed.

  Lemma deps_lookup tys env vals : rels tys env vals -> forall ds ts, tys_at tys ds = Some ts ->
    exists rvs vs, mapM (fun d => znth env d) ds = Ok rvs /\ mapM (dep_get vals (length vals)) ds = Ok vs /\
                   mapM (dep_get tys (length vals)) ds = Ok ts /\ rels ts rvs vs.
  Proof.
    intros Hr. induction ds as [|d ds IH]; intros ts E; cbn [tys_at] in E.
    - injection E as <-. exists [], []. cbn [mapM]. repeat split; auto. constructor.
    - destruct (ty_at tys d) as [t|] eqn:Ed; [|discriminate].
      destruct (tys_at tys ds) as [ts'|] eqn:Es; [|discriminate]. injection E as <-.
      destruct (dep_lookup _ _ _ _ _ Hr Ed) as (rv & v & E1 & E2 & E3 & Hrel).
      destruct (IH _ eq_refl) as (rvs & vs & F1 & F2 & F3 & Hrels).
      exists (rv :: rvs), (v :: vs). cbn [mapM]. rewrite E1, E2, E3, F1, F2, F3. cbn [bind].
      repeat split; auto. constructor; auto.
  Qed.

  Lemma ty_at_is_eq tys d : ty_at_is tys d T = true -> ty_at tys d = Some T.
  Proof.
    unfold ty_at_is. destruct (ty_at tys d) as [t|]; [|discriminate].
    intros H. apply ty_eqb_eq in H. now subst.
  Qed.

  (* ---------------------------------------------------------------- one node *)
  Definition tape_cond (k : nat) (nd : node) : bool :=
    if from_tape (n_op nd) then
      match tape (Z.of_nat k) with Some v => ring_shape_ok T (n_ty nd) v | None => false end
    else true.

  Definition step_inputs (k : nat) (nd : node) : list value :=
    if is_input_op (n_op nd) then match tape (Z.of_nat k) with Some v => [v] | None => [] end else [].

  (* binary arithmetic nodes *)
  Lemma step_arith (o : op) (kk : scalar -> Z -> Z -> Z) (f : Z -> Z -> Z) vals tys env nd a b :
    (forall dts t vs, eval_node o dts t vs
        = let* x := nth_res vs 0%nat in let* y := nth_res vs 1%nat in
          eval_arith kk (nth 0%nat dts (TTuple [])) (nth 1%nat dts (TTuple [])) t x y) ->
    (forall st x y, kk st x y = f x y mod modulus st) ->
    (forall i x y, reval_node (list Z) (repeat 0 n) (za w) (zm w) (zs w) (zatom tape) zcatom (repeat 1 n)
                     i o [RLeaf _ x; RLeaf _ y]
                   = Some (RLeaf _ (RingEvalInst.zip_with (fun p q => f p q mod RingEvalInst.m w) x y))) ->
    from_tape o = false -> is_input_op o = false ->
    rels tys env vals -> n_op nd = o -> n_deps nd = [a; b] ->
    ty_eqb (n_ty nd) T && ty_at_is tys a T && ty_at_is tys b T = true ->
    exists v rv, estep vals tys nd = Ok v /\
                 (forall ins, rstep env nd ins = Some (rv, ins)) /\ rel (n_ty nd) rv v.
  Proof.
    intros Hev Hk Hrd Hft Hin Hr Eo Ed Hok.
    apply andb_true_iff in Hok as (Hok & Hb). apply andb_true_iff in Hok as (Hty & Ha).
    apply ty_eqb_eq in Hty. apply ty_at_is_eq in Ha, Hb.
    destruct (dep_lookup _ _ _ _ _ Hr Ha) as (rva & va & A1 & A2 & A3 & Ra).
    destruct (dep_lookup _ _ _ _ _ Hr Hb) as (rvb & vb & B1 & B2 & B3 & Rb).
    apply rel_T_inv in Ra as (ea & -> & -> & La). apply rel_T_inv in Rb as (eb & -> & -> & Lb).
    exists (VArr (Eval.zip_with (kk (st_of T)) ea eb)),
           (RLeaf _ (RingEvalInst.zip_with (fun p q => f p q mod RingEvalInst.m w) ea eb)).
    split; [|split].
    - unfold estep. rewrite Eo, Hft, Ed. cbn [mapM]. rewrite A2, B2, A3, B3. cbn [bind].
      rewrite Hev. cbn [nth_res nth bind]. rewrite Hty. now apply eval_arith_same.
    - intros ins. unfold rstep. rewrite Eo, Hin, Ed. cbn [mapM]. rewrite A1, B1. cbn [bind].
      now rewrite Hrd.
    - rewrite Hty.
      rewrite (zip_with_agree (kk (st_of T)) (fun p q => f p q mod RingEvalInst.m w))
        by (intros; rewrite Hk; reflexivity).
      apply rel_leaf. now apply ring_zip_length.
  Qed.

  Definition step_goal (vals : list value) (tys : list ty) (env : list RV) (nd : node) : Prop :=
    exists v rv,
      estep vals tys nd = Ok v /\
      (forall ins, rstep env nd (map in_of_value (step_inputs (length vals) nd) ++ ins) = Some (rv, ins)) /\
      rel (n_ty nd) rv v.

  Lemma step_input vals tys env nd :
    rels tys env vals -> is_input_op (n_op nd) = true -> tape_cond (length vals) nd = true ->
    step_goal vals tys env nd.
  Proof.
    intros Hr Hi Htp. unfold tape_cond in Htp. unfold step_goal, step_inputs, estep, rstep. rewrite Hi.
    destruct (n_op nd) eqn:Eo; try discriminate Hi. cbn [from_tape] in *.
    destruct (tape (Z.of_nat (length vals))) as [v|] eqn:Et; [|discriminate].
    exists v, (in_of_value v). split; [reflexivity|]. split; [reflexivity|]. now apply shape_ok_rel.
  Qed.

  Lemma step_tuple vals tys env nd :
    rels tys env vals -> n_op nd = OCreateTuple -> node_ok T tys nd = true ->
    step_goal vals tys env nd.
  Proof.
    intros Hr Eo Hok. unfold node_ok in Hok. rewrite Eo in Hok.
    destruct (tys_at tys (n_deps nd)) as [ts|] eqn:Es; [|discriminate]. apply ty_eqb_eq in Hok.
    destruct (deps_lookup _ _ _ Hr _ _ Es) as (rvs & vs & F1 & F2 & F3 & Hrels).
    exists (VTup vs), (RTup _ rvs). split; [|split].
    - unfold estep. rewrite Eo. cbn [from_tape]. rewrite F2, F3. reflexivity.
    - intros ins. unfold rstep, step_inputs. rewrite Eo. cbn [is_input_op map app]. rewrite F1. reflexivity.
    - rewrite Hok. now apply rel_tup.
  Qed.

  Lemma step_ok vals tys env nd :
    rels tys env vals -> node_ok T tys nd = true -> tape_cond (length vals) nd = true ->
    step_goal vals tys env nd.
  Proof.
    intros Hr Hok Htp. destruct (rels_length _ _ _ Hr) as (Le & Lv).
    destruct (n_op nd) eqn:Eo;
      try (match type of Eo with
           | _ = OInput _ => apply step_input; auto; rewrite Eo; reflexivity
           | _ = OCreateTuple => apply step_tuple; auto
           end);
      unfold node_ok in Hok; unfold tape_cond in Htp; unfold step_goal, step_inputs;
      rewrite Eo in Hok, Htp |- *; cbn [from_tape is_input_op] in Htp |- *; cbv beta iota in Hok;
      destruct (n_deps nd) as [|a [|b [|c ds]]] eqn:Ed; try discriminate Hok;
      try (match type of Hok with context [match ?x with VArr _ => _ | VTup _ => _ end] =>
             destruct x; discriminate Hok end).
    - (* Zeros *)
      apply andb_true_iff in Hok as (H1 & H2). apply ty_eqb_eq in H1, H2. subst t.
      exists (const_of_type 0 T), (RLeaf _ (repeat 0 n)). split; [|split].
      + unfold estep. rewrite Eo, Ed. reflexivity.
      + intros ins. unfold rstep. rewrite Eo, Ed. cbn [is_input_op mapM map app].
        rewrite reval_node_zeros by (now apply wf_ring_type_leaf). reflexivity.
      + rewrite H2, const_of_type_leaf by (now apply wf_ring_type_leaf). apply rel_leaf. apply repeat_length.
    - (* Ones *)
      apply andb_true_iff in Hok as (H1 & H2). apply ty_eqb_eq in H1, H2. subst t.
      exists (const_of_type 1 T), (RLeaf _ (repeat 1 n)). split; [|split].
      + unfold estep. rewrite Eo, Ed. reflexivity.
      + intros ins. unfold rstep. rewrite Eo, Ed. cbn [is_input_op mapM map app].
        rewrite reval_node_ones by (now apply wf_ring_type_leaf). reflexivity.
      + rewrite H2, const_of_type_leaf by (now apply wf_ring_type_leaf). apply rel_leaf. apply repeat_length.
    - (* Add *)
      destruct (step_arith OAdd k_add Z.add vals tys env nd a b) as (v & rv & E1 & E2 & E3); auto.
      + intros; apply k_add_mod.
      + exists v, rv. cbn [map app]. auto.
    - (* Subtract *)
      destruct (step_arith OSubtract k_sub Z.sub vals tys env nd a b) as (v & rv & E1 & E2 & E3); auto.
      + intros; apply k_sub_mod.
      + exists v, rv. cbn [map app]. auto.
    - (* Multiply *)
      destruct (step_arith OMultiply k_mul Z.mul vals tys env nd a b) as (v & rv & E1 & E2 & E3); auto.
      + intros; apply k_mul_mod.
      + exists v, rv. cbn [map app]. auto.
    - (* NOP *)
      destruct (ty_at tys a) as [t|] eqn:Ea; [|discriminate]. apply ty_eqb_eq in Hok.
      destruct (dep_lookup _ _ _ _ _ Hr Ea) as (rv & v & A1 & A2 & A3 & Ra).
      exists v, rv. split; [|split].
      + unfold estep. rewrite Eo, Ed. cbn [from_tape mapM]. rewrite A2, A3. reflexivity.
      + intros ins. unfold rstep. rewrite Eo, Ed. cbn [is_input_op mapM map app]. rewrite A1. reflexivity.
      + now rewrite Hok.
    - (* Random: a key *)
      destruct (tape (Z.of_nat (length vals))) as [v|] eqn:Et; [|discriminate].
      apply andb_true_iff in Hok as (H1 & H2).
      exists v, (RKey _). split; [|split].
      + unfold estep. rewrite Eo. cbn [from_tape]. now rewrite Et.
      + intros ins. unfold rstep. rewrite Eo, Ed. reflexivity.
      + apply rel_other.
        * apply ty_eqb_false. now destruct (ty_eqb (n_ty nd) T).
        * now destruct (is_tuple_ty (n_ty nd)).
        * reflexivity.
    - (* PRF *)
      destruct (tape (Z.of_nat (length vals))) as [v|] eqn:Et; [|discriminate].
      apply andb_true_iff in Hok as (H1 & H2). apply ty_eqb_eq in H1.
      destruct (ty_at tys a) as [t0|] eqn:Ea; [|discriminate].
      destruct (dep_lookup _ _ _ _ _ Hr Ea) as (rv0 & v0 & A1 & A2 & A3 & Ra).
      rewrite H1 in Htp. apply shape_ok_T in Htp as (es & -> & Les).
      exists (VArr es), (RLeaf _ es). split; [|split].
      + unfold estep. rewrite Eo. cbn [from_tape]. now rewrite Et.
      + intros ins. unfold rstep. rewrite Eo, Ed. cbn [is_input_op mapM map app]. rewrite A1. cbn [bind reval_node].
        unfold zatom. replace (length env) with (length vals) by lia. now rewrite Et.
      + rewrite H1. now apply rel_leaf.
    - (* Constant *)
      destruct v as [es|]; [|discriminate].
      apply andb_true_iff in Hok as (Hok & H3). apply andb_true_iff in Hok as (H1 & H2).
      apply ty_eqb_eq in H1, H2. subst t.
      exists (VArr es), (RLeaf _ es). split; [|split].
      + unfold estep. rewrite Eo, Ed. reflexivity.
      + intros ins. unfold rstep. rewrite Eo, Ed. cbn [is_input_op mapM map app].
        rewrite reval_node_constant by (now apply wf_ring_type_leaf). reflexivity.
      + rewrite H2. apply rel_leaf. unfold n. lia.
    - (* TupleGet *)
      destruct (ty_at tys a) as [t0|] eqn:Ea; [|discriminate].
      destruct t0 as [| | |ts|]; try discriminate.
      apply andb_true_iff in Hok as (Hi & Hok).
      destruct (nth_error ts (Z.to_nat i)) as [t|] eqn:Ei; [|discriminate]. apply ty_eqb_eq in Hok.
      destruct (dep_lookup _ _ _ _ _ Hr Ea) as (rv0 & v0 & A1 & A2 & A3 & Ra).
      apply rel_tup_inv in Ra as (l & vs & -> & -> & Hrels).
      destruct (rels_nth _ _ _ Hrels _ _ Ei) as (rv & v & E1 & E2 & Hrel).
      assert (Z1 : znth l i = Ok rv) by (apply znth_ok; split; [lia|auto]).
      assert (Z2 : znth vs i = Ok v) by (apply znth_ok; split; [lia|auto]).
      exists v, rv. split; [|split].
      + unfold estep. rewrite Eo, Ed. cbn [from_tape mapM]. rewrite A2, A3. cbn [bind eval_node nth_res tup_of].
        exact Z2.
      + intros ins. unfold rstep. rewrite Eo, Ed. cbn [is_input_op mapM map app]. rewrite A1. cbn [bind reval_node].
        now rewrite Z1.
      + now rewrite Hok.
  Qed.

  (* ---------------------------------------------------------------- the whole node list *)
  Lemma bridge_fwd post : forall vals tys env,
    rels tys env vals -> wf_ring_nodes T tys post = true ->
    wf_ring_tape_from T (length vals) post tape = true ->
    exists vals' env',
      fold_left (gstep eval_node from_tape tape) post (Ok (vals, tys)) = Ok (vals', tys ++ map n_ty post) /\
      reval_Z w n tape post env (map in_of_value (tape_inputs_from (length vals) post tape)) = Some env' /\
      rels (tys ++ map n_ty post) env' vals'.
  Proof.
    induction post as [|nd post IH]; intros vals tys env Hr Hwf Htp.
    - exists vals, env. cbn [fold_left map]. rewrite app_nil_r. auto.
    - cbn [wf_ring_nodes wf_ring_tape_from] in Hwf, Htp.
      apply andb_true_iff in Hwf as (Hok & Hwf). apply andb_true_iff in Htp as (Htc & Htp).
      destruct (step_ok vals tys env nd Hr Hok Htc) as (v & rv & E1 & E2 & Hrel).
      destruct (IH (vals ++ [v]) (tys ++ [n_ty nd]) (env ++ [rv])) as (vals' & env' & F1 & F2 & Hrels).
      + now apply rels_snoc.
      + exact Hwf.
      + rewrite app_length. cbn [length]. now rewrite Nat.add_1_r.
      + exists vals', env'. cbn [fold_left map]. rewrite gstep_estep, E1. cbn [bind].
        rewrite <- app_assoc in F1, Hrels. cbn [app] in F1, Hrels.
        split; [exact F1|]. split; [|exact Hrels].
        rewrite reval_cons. cbn [tape_inputs_from]. rewrite map_app.
        change (if is_input_op (n_op nd) then match tape (Z.of_nat (length vals)) with Some v0 => [v0] | None => [] end else [])
          with (step_inputs (length vals) nd).
        rewrite E2. rewrite app_length in F2. cbn [length] in F2. now rewrite Nat.add_1_r in F2.
  Qed.

  Lemma mismatch_none ts env vals : rels ts env vals -> forall i,
    (fix go (i : Z) (e : list RV) (o : list value) {struct e} : Z :=
       match e, o with
       | [], [] => -1
       | a :: e', b :: o' => if rv_matches a b then go (i + 1) e' o' else i
       | _, _ => i
       end) i env vals = -1.
  Proof.
    induction 1 as [|t rv v ts l vs H0 _ IH]; intros i; [reflexivity|].
    rewrite (rel_matches _ _ _ H0). apply IH.
  Qed.

  Theorem bridge_total nodes :
    wf_ring_nodes T [] nodes = true -> wf_ring_tape T nodes tape = true ->
    exists vals env,
      eval_graph_nodes nodes tape = Ok vals /\
      reval_Z w n tape nodes [] (map in_of_value (tape_inputs nodes tape)) = Some env /\
      rels (map n_ty nodes) env vals.
  Proof.
    intros Hwf Htp.
    destruct (bridge_fwd nodes [] [] [] rels_nil Hwf Htp) as (vals & env & F1 & F2 & Hrels).
    exists vals, env. split; [|split; auto].
    rewrite eval_graph_nodes_geval. unfold geval. rewrite F1. reflexivity.
  Qed.
End Bridge.

(* ------------------------------------------------------------------ the statements of Props/C01.v *)
Lemma rels_Forall2_matches T ts env vals :
  rels T ts env vals -> Forall2 (fun rv v => rv_matches rv v = true) env vals.
Proof.
  intros H. induction H as [|t rv v ts l vs H0 _ IH]; constructor; auto.
  eapply rel_matches; eauto.
Qed.

(* both sides are defined and agree node for node *)
Theorem ring_reading_total T tape nodes :
  wf_ring_graph T nodes = true -> wf_ring_tape T nodes tape = true ->
  exists vals env,
    eval_graph_nodes nodes tape = Ok vals /\
    reval_Z (ring_w T) (ring_n T) tape nodes [] (map in_of_value (tape_inputs nodes tape)) = Some env /\
    Forall2 (fun rv v => rv_matches rv v = true) env vals.
Proof.
  unfold wf_ring_graph. intros Hg Htp. apply andb_true_iff in Hg as (HT & Hwf).
  destruct (bridge_total T tape HT nodes Hwf Htp) as (vals & env & E1 & E2 & Hrels).
  exists vals, env. split; [|split]; auto. eapply rels_Forall2_matches; eauto.
Qed.

(* the form checked by the `ring-reading` tie: no node mismatches *)
Theorem ring_reading_agrees T tape nodes vals :
  wf_ring_graph T nodes = true -> wf_ring_tape T nodes tape = true ->
  eval_graph_nodes nodes tape = Ok vals ->
  reading_mismatch (ring_w T) (ring_n T) tape nodes (tape_inputs nodes tape) vals = -1.
Proof.
  unfold wf_ring_graph. intros Hg Htp Hev. apply andb_true_iff in Hg as (HT & Hwf).
  destruct (bridge_total T tape HT nodes Hwf Htp) as (vals' & env & E1 & E2 & Hrels).
  rewrite Hev in E1. injection E1 as <-.
  unfold reading_mismatch. rewrite E2. eapply mismatch_none; eauto.
Qed.

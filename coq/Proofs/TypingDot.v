(* C09 preservation: Dot. *)
From CC Require Import Base.Prelude Base.Scalar Base.Ty Base.Shape Graph.Value Graph.IR Graph.Eval
  Graph.Typing Proofs.EvalProofs Proofs.TypingBase Proofs.TypingTuple Proofs.TypingArith
  Proofs.TypingBits Proofs.TypingReduce Proofs.TypingStruct.

Lemma insert_at_length {A} (l : list A) i x : length (insert_at l i x) = S (length l).
Proof.
  unfold insert_at. rewrite app_length. cbn [length]. rewrite firstn_length, skipn_length. lia.
Qed.

Lemma valid_removelast sh : valid_shape sh -> valid_shape (removelast sh).
Proof. intros V. rewrite removelast_firstn_len. now apply valid_shape_split. Qed.

Lemma removelast_length {A} (l : list A) : length (removelast l) = (length l - 1)%nat.
Proof. rewrite removelast_firstn_len, firstn_length. lia. Qed.

(* the accumulation loop shared by every branch: a fold whose steps read both operands *)
Lemma dot_fold_ok st (step : Z -> Z -> result Z) l :
  (forall j acc, In j l -> exists r, step acc j = Ok r /\ 0 <= r < modulus st) ->
  exists r, fold_left (fun acc j => let* a := acc in step a j) l (Ok 0) = Ok r /\ 0 <= r < modulus st.
Proof.
  intros H.
  apply (fold_res_inv (fun acc j => let* a := acc in step a j) (fun r => 0 <= r < modulus st) l).
  - intros j acc Hj _. cbn [bind]. apply H; auto.
  - apply zero_in_range.
Qed.

Lemma preserves_dot : preserves ODot.
Proof.
  intros ts t vs Hu H HF. inv_infer H. apply zlen_eq in Harity.
  destruct (two_deps _ _ Harity HF) as (v0 & t0 & v1 & t1 & -> & -> & [Hv0 Hok0] & [Hv1 Hok1]).
  cbn [nth] in H. cbn [eval_node nth nth_res bind].
  apply bind_ok in H as (r & Er & H). apply register_ok in H as [-> _].
  unfold dot_type_inference in Er.
  destruct (is_leaf t0) eqn:L0; cbn [negb] in Er; [|discriminate].
  destruct (is_leaf t1) eqn:L1; cbn [negb] in Er; [|discriminate].
  destruct (scalar_eqb (st_of t0) (st_of t1)) eqn:S; cbn [negb] in Er; [|discriminate]. apply scalar_eqb_eq in S.
  destruct (dims_valid t0 L0 Hok0) as [V0 N0]. destruct (dims_valid t1 L1 Hok1) as [V1 N1].
  unfold eval_dot.
  destruct (is_arr t0 && is_arr t1) eqn:AA.
  - (* two arrays *)
    destruct t0 as [|s0 st0| | |]; try discriminate. destruct t1 as [|s1 st1| | |]; try discriminate.
    cbn [st_of shape_of dims is_arr andb] in *. subst st1.
    destruct v0 as [e0|]; [|discriminate]. apply has_type_array in Hv0 as [Le0 _].
    destruct v1 as [e1|]; [|discriminate]. apply has_type_array in Hv1 as [Le1 _].
    cbn [arr_of bind]. unfold zlen in Er.
    pose proof (prod_list_pos _ V0) as P0. pose proof (prod_list_pos _ V1) as P1.
    destruct ((Z.of_nat (length s0) =? 1) && (Z.of_nat (length s1) =? 1)) eqn:R11.
    + (* vector . vector *)
      replace ((length s0 =? 1)%nat && (length s1 =? 1)%nat) with true by (symmetry; apply andb_true_iff; split; apply Nat.eqb_eq; lia).
      apply bind_ok in Er as (a & Ea & Er). apply bind_ok in Er as (b & Eb & Er).
      destruct (a =? b) eqn:AB; cbn [negb] in Er; [|discriminate]. inversion Er; subst r. clear Er.
      destruct s0 as [|a' [|? ?]]; cbn in R11; try lia. destruct s1 as [|b' [|? ?]]; cbn in R11; try lia.
      cbn in Ea, Eb. inversion Ea; inversion Eb; subst a' b'. assert (b = a) by lia. subst b.
      cbn [prod_list fold_right hd] in *.
      destruct (dot_fold_ok st0 (fun acc i => let* x := znth e0 i in let* y := znth e1 i in
                                             Ok (k_add st0 acc (k_mul st0 x y))) (zrange a)) as (acc & -> & Racc).
      { intros j acc Hj. apply zrange_in in Hj.
        destruct (znth_total e0 j) as (x & -> & _); [lia|]. destruct (znth_total e1 j) as (y & -> & _); [lia|].
        cbn [bind]. eexists; split; [reflexivity| apply k_add_range]. }
      cbn [bind safe_typed]. apply has_type_scalar. split; [reflexivity| repeat constructor; lia].
    + (* general case: the result is an array *)
      replace ((length s0 =? 1)%nat && (length s1 =? 1)%nat) with false.
      2:{ symmetry. apply andb_false_iff. apply andb_false_iff in R11. destruct R11; [left|right]; apply Nat.eqb_neq; lia. }
      set (l0 := length s0) in *. set (l1 := length s1) in *.
      assert (Hl0 : (1 <= l0)%nat) by (destruct s0; [congruence| cbn; lia]).
      assert (Hl1 : (1 <= l1)%nat) by (destruct s1; [congruence| cbn; lia]).
      assert (Hr : exists rs, r = TArray rs st0 /\ valid_shape rs /\
                              length rs = ((l0 - 1) + (l1 - 1))%nat /\ (l1 = 1 -> 2 <= l0)%nat).
      { destruct (Z.of_nat l1 =? 1) eqn:R1.
        - apply bind_ok in Er as (a & Ea & Er). apply bind_ok in Er as (b & Eb & Er).
          destruct (a =? b); cbn [negb] in Er; [|discriminate]. inversion Er; subst r.
          exists (removelast s0). repeat split; [now apply valid_removelast| rewrite removelast_length; lia|].
          intros _. apply andb_false_iff in R11. lia.
        - apply bind_ok in Er as (a & Ea & Er). apply bind_ok in Er as (b & Eb & Er).
          destruct (a =? b); cbn [negb] in Er; [|discriminate]. inversion Er; subst r.
          eexists. split; [reflexivity|]. split; [|split; [|lia]].
          + apply Forall_app. split; [now apply valid_removelast|]. apply Forall_app.
            split; [now apply valid_shape_split| now apply valid_shape_split].
          + rewrite !app_length, removelast_length, firstn_length, skipn_length. fold l0 l1. lia. }
      destruct Hr as (rs & -> & Vrs & Lrs & Hl01). clear Er.
      cbn [shape_of is_scalar].
      assert (Emid : exists middle, (if (1 <? l1)%nat then znth s1 (Z.of_nat l1 - 2) else znth s1 0) = Ok middle).
      { destruct (1 <? l1)%nat eqn:B; [apply Nat.ltb_lt in B| apply Nat.ltb_ge in B].
        - destruct (znth_total s1 (Z.of_nat l1 - 2)) as (m & -> & _); [fold l1; lia| eauto].
        - destruct (znth_total s1 0) as (m & -> & _); [fold l1; lia| eauto]. }
      destruct Emid as (middle & ->). cbn [bind].
      match goal with |- context [mapM ?g (zrange (prod_list rs))] =>
        destruct (mapM_ok g (fun e => 0 <= e < modulus st0) (zrange (prod_list rs))) as (res & -> & Lres & Fres) end.
      { intros i Hi. apply zrange_in in Hi.
        destruct (number_to_index_inverse rs i Vrs Hi) as (ri & -> & Hin & _). cbn [bind].
        apply in_shape_length in Hin.
        apply dot_fold_ok. intros j acc Hj.
        replace (length ri <? l0 - 1)%nat with false by (symmetry; apply Nat.ltb_ge; lia).
        assert (Ltl : length (skipn (l0 - 1) ri) = (l1 - 1)%nat) by (rewrite skipn_length; lia).
        replace ((1 <? l1)%nat && (length (skipn (l0 - 1) ri) =? 0)%nat) with false.
        2:{ symmetry. destruct (1 <? l1)%nat eqn:B; [|reflexivity]. apply Nat.ltb_lt in B. cbn [andb]. apply Nat.eqb_neq. lia. }
        destruct (index_to_number_total s0 (firstn (l0 - 1) ri ++ [j]) V0) as (n0 & -> & B0).
        { rewrite app_length, firstn_length. cbn [length]. fold l0. lia. }
        cbn [bind].
        match goal with |- context [index_to_number ?ix s1] =>
          destruct (index_to_number_total s1 ix V1) as (n1 & -> & B1) end.
        { fold l1. destruct (1 <? l1)%nat eqn:B; [apply Nat.ltb_lt in B| apply Nat.ltb_ge in B].
          - replace (length (skipn (l0 - 1) ri) =? 0)%nat with false by (symmetry; apply Nat.eqb_neq; lia).
            rewrite insert_at_length. lia.
          - cbn [length]. lia. }
        cbn [bind].
        destruct (znth_total e0 n0) as (x & -> & _); [lia|]. destruct (znth_total e1 n1) as (y & -> & _); [lia|].
        cbn [bind]. eexists; split; [reflexivity| apply k_add_range]. }
      cbn [bind safe_typed]. apply has_type_array. split; [|exact Fres].
      rewrite Lres, zrange_length. pose proof (prod_list_pos _ Vrs). lia.
  - (* a scalar operand: element-wise multiplication *)
    assert (Er' : r = if is_arr t0 then t0 else t1) by (destruct (is_arr t0); inversion Er; reflexivity).
    clear Er. unfold eval_arith. rewrite L0, L1. cbn [andb negb]. cbv zeta.
    destruct t0 as [s0|sh0 s0| | |]; try discriminate; destruct t1 as [s1|sh1 s1| | |]; try discriminate;
      cbn [is_arr andb st_of dims] in *; try discriminate; subst r.
    + apply (broadcast_zip_typed (k_mul s0) s0 (TScalar s0) (TScalar s1) (TScalar s1)); cbn [is_leaf dims st_of]; auto.
      intros; apply k_mul_range.
    + apply (broadcast_zip_typed (k_mul s1) s1 (TScalar s0) (TArray sh1 s1) (TArray sh1 s1)); cbn [is_leaf dims st_of]; auto.
      * intros; apply k_mul_range.
      * destruct sh1; [congruence| cbn; lia].
    + apply (broadcast_zip_typed (k_mul s0) s0 (TArray sh0 s0) (TScalar s1) (TArray sh0 s0)); cbn [is_leaf dims st_of]; auto.
      * intros; apply k_mul_range.
      * destruct sh0; [congruence| cbn; lia].
Qed.

(* C09: type preservation of eval_node (Graph/Eval.v) with respect to infer (Graph/Typing.v),
   one lemma per operation. *)
From CC Require Import Base.Prelude Base.Scalar Base.Ty Base.Shape Graph.Value Graph.IR Graph.Eval
  Graph.Typing Proofs.EvalProofs.

(* ------------------------------------------------------------------ statement vocabulary *)
Definition ht (v : value) (t : ty) : Prop := has_type v t = true.

(* Rust's u64 parameters are non-negative: dimensions and vector lengths of a type *)
Fixpoint ty_u64 (t : ty) : bool :=
  match t with
  | TScalar _ => true
  | TArray sh _ => forallb (fun d => 0 <=? d) sh
  | TVector n t1 => (0 <=? n) && ty_u64 t1
  | TTuple ts => forallb ty_u64 ts
  | TNamed fs => forallb (fun p => ty_u64 (snd p)) fs
  end.
(* a node type: valid (it was registered, type_inference.rs:594) and made of u64 numbers *)
Definition ty_ok (t : ty) : bool := ty_valid t && ty_u64 t.
(* a value of a node type *)
Definition wt (v : value) (t : ty) : Prop := has_type v t = true /\ ty_ok t = true.

Definition safe_typed (r : result value) (t : ty) : Prop :=
  match r with Ok v => has_type v t = true | Err => True | Panic | OutOfFuel => False end.

(* u64 parameters of the operation itself *)
Definition op_u64 (o : op) : bool :=
  match o with
  | OInput t | OZeros t | OOnes t | OReshape t | ORandom t | OPRF _ t | OCreateVector t
  | OConstant t _ => ty_u64 t
  | OTruncate x | OCumSum x | OConcatenate x | OTupleGet x | ORepeat x | OGather x => 0 <=? x
  | OSum l | OPermuteAxes l | OGet l | OStack l => forallb (fun d => 0 <=? d) l
  | _ => true
  end.

Definition preserves (o : op) : Prop :=
  forall ts t vs,
    op_u64 o = true ->
    infer o ts = Ok t -> Forall2 wt vs ts ->
    safe_typed (eval_node o ts t vs) t.

(* ------------------------------------------------------------------ generic helpers *)
Lemma bind_ok {A B} (r : result A) (f : A -> result B) b :
  bind r f = Ok b -> exists a, r = Ok a /\ f a = Ok b.
Proof. destruct r; cbn; intros H; try discriminate. eauto. Qed.

Lemma register_ok t r : register t = Ok r -> r = t /\ ty_valid t = true.
Proof. unfold register. destruct (ty_valid t); intros H; inversion H; auto. Qed.

Lemma zlen_eq {A} (l : list A) n : (zlen l =? n) = true -> Z.of_nat (length l) = n.
Proof. unfold zlen. lia. Qed.

Lemma mapM_ok {A B} (f : A -> result B) (P : B -> Prop) l :
  (forall x, In x l -> exists y, f x = Ok y /\ P y) ->
  exists ys, mapM f l = Ok ys /\ length ys = length l /\ Forall P ys.
Proof.
  induction l as [|x xs IH]; intros H.
  - exists []. cbn. auto.
  - destruct (H x (or_introl eq_refl)) as (y & Ey & Py).
    destruct IH as (ys & E & L & F). { intros; apply H; now right. }
    exists (y :: ys). cbn [mapM]. rewrite Ey. cbn [bind]. rewrite E. cbn [bind length].
    repeat split; auto.
Qed.

Lemma mapM_safe {A B} (f : A -> result B) (P : B -> Prop) l :
  (forall x, In x l -> match f x with Ok y => P y | Err => True | _ => False end) ->
  match mapM f l with Ok ys => length ys = length l /\ Forall P ys | Err => True | _ => False end.
Proof.
  induction l as [|x xs IH]; intros H; cbn [mapM].
  - auto.
  - pose proof (H x (or_introl eq_refl)) as Hx. destruct (f x) as [y| | |]; cbn [bind]; auto.
    assert (IH' := IH (fun z Hz => H z (or_intror Hz))).
    destruct (mapM f xs) as [ys| | |]; cbn [bind]; auto.
    destruct IH' as [L F]. cbn [length]. split; auto.
Qed.

Lemma zrange_length n : length (zrange n) = Z.to_nat n.
Proof. unfold zrange. now rewrite map_length, seq_length. Qed.
Lemma zrange_in n i : In i (zrange n) -> 0 <= i < n.
Proof.
  unfold zrange. rewrite in_map_iff. intros (k & <- & Hk). apply in_seq in Hk. lia.
Qed.

Lemma nth_res_ok {A} (l : list A) i d : (i < length l)%nat -> nth_res l i = Ok (nth i l d).
Proof.
  revert i; induction l as [|x xs IH]; intros i H; cbn in *; [lia|].
  destruct i; cbn; auto. apply IH. lia.
Qed.
Lemma znth_ok {A} (l : list A) i d : 0 <= i < Z.of_nat (length l) ->
  znth l i = Ok (nth (Z.to_nat i) l d).
Proof. intros H. unfold znth. replace (i <? 0) with false by lia. apply nth_res_ok. lia. Qed.

Lemma in_range_forallb st es :
  forallb (fun e => (0 <=? e) && (e <? modulus st)) es = true <-> Forall (fun e => 0 <= e < modulus st) es.
Proof. rewrite forallb_forall, Forall_forall. split; intros H x Hx; specialize (H x Hx); lia. Qed.

(* ------------------------------------------------------------------ has_type, structurally *)
Lemma has_type_tuple vs ts : has_type (VTup vs) (TTuple ts) = true <-> Forall2 ht vs ts.
Proof.
  cbn [has_type]. revert ts. induction vs as [|v vs IH]; intros [|t ts]; split; intros H;
    try discriminate; try (inversion H; fail); auto.
  - apply andb_true_iff in H as [H1 H2]. constructor; [exact H1| now apply IH].
  - inversion H; subst. apply andb_true_iff. split; [assumption| now apply IH].
Qed.

Lemma has_type_named vs fs : has_type (VTup vs) (TNamed fs) = true <-> Forall2 ht vs (map snd fs).
Proof.
  cbn [has_type]. revert fs. induction vs as [|v vs IH]; intros [|f fs]; cbn [map]; split; intros H;
    try discriminate; try (inversion H; fail); auto.
  - apply andb_true_iff in H as [H1 H2]. constructor; [exact H1| now apply IH].
  - inversion H; subst. apply andb_true_iff. split; [assumption| now apply IH].
Qed.

Lemma has_type_vector vs n t :
  has_type (VTup vs) (TVector n t) = true <-> Z.of_nat (length vs) = n /\ Forall (fun v => ht v t) vs.
Proof.
  cbn [has_type]. rewrite andb_true_iff, forallb_forall, Forall_forall. unfold ht.
  split; intros [H1 H2]; split; auto; lia.
Qed.

Lemma has_type_scalar es s :
  has_type (VArr es) (TScalar s) = true <-> length es = 1%nat /\ Forall (fun e => 0 <= e < modulus s) es.
Proof. cbn [has_type]. rewrite andb_true_iff, in_range_forallb. split; intros [H1 H2]; split; auto; lia. Qed.
Lemma has_type_array es sh s :
  has_type (VArr es) (TArray sh s) = true <->
  Z.of_nat (length es) = prod_list sh /\ Forall (fun e => 0 <= e < modulus s) es.
Proof. cbn [has_type]. rewrite andb_true_iff, in_range_forallb. split; intros [H1 H2]; split; auto; lia. Qed.

(* a leaf value: prod(dims) normalised elements *)
Lemma has_type_leaf v t : is_leaf t = true -> has_type v t = true ->
  exists es, v = VArr es /\ Z.of_nat (length es) = prod_list (dims t)
             /\ Forall (fun e => 0 <= e < modulus (st_of t)) es.
Proof.
  destruct t; cbn [is_leaf]; try discriminate; intros _ H; destruct v as [es|vs]; try discriminate.
  - apply has_type_scalar in H as [L F]. exists es. cbn [dims st_of prod_list fold_right]. repeat split; auto. lia.
  - apply has_type_array in H as [L F]. exists es. cbn [dims st_of]. auto.
Qed.
Lemma leaf_has_type es t : is_leaf t = true -> Z.of_nat (length es) = prod_list (dims t) ->
  Forall (fun e => 0 <= e < modulus (st_of t)) es -> has_type (VArr es) t = true.
Proof.
  destruct t; cbn [is_leaf]; try discriminate; intros _ L F.
  - apply has_type_scalar. cbn [dims prod_list fold_right] in L. split; auto. lia.
  - apply has_type_array. auto.
Qed.

Lemma Forall2_wt_length vs ts : Forall2 wt vs ts -> length vs = length ts.
Proof. induction 1; cbn; auto. Qed.

(* the i-th dependency and its value *)
Lemma dep_value vs ts i : Forall2 wt vs ts -> (i < length ts)%nat ->
  exists v, nth_res vs i = Ok v /\ wt v (nth i ts (TTuple [])).
Proof.
  intros H. revert i. induction H as [|v t vs ts Hv _ IH]; intros i Hi; cbn in *; [lia|].
  destruct i; [eauto|]. apply IH. lia.
Qed.

(* ------------------------------------------------------------------ valid shapes *)
Lemma is_valid_shape_pos sh :
  is_valid_shape sh = true -> forallb (fun d => 0 <=? d) sh = true -> valid_shape sh /\ sh <> [].
Proof.
  unfold is_valid_shape. intros H N.
  apply andb_true_iff in H as [H _]. apply andb_true_iff in H as [H0 H1].
  split; [|destruct sh; [discriminate|congruence]].
  rewrite forallb_forall in H1, N. apply Forall_forall. intros d Hd.
  specialize (H1 d Hd). specialize (N d Hd). lia.
Qed.

Lemma ty_ok_array sh s : ty_ok (TArray sh s) = true -> valid_shape sh /\ sh <> [].
Proof. unfold ty_ok. cbn. intros H. apply andb_true_iff in H as [H1 H2]. now apply is_valid_shape_pos. Qed.

Lemma dims_valid t : is_leaf t = true -> ty_ok t = true -> valid_shape (dims t) /\ dims t <> [].
Proof.
  destruct t; cbn [is_leaf]; try discriminate; intros _ H; cbn [dims].
  - split; [repeat constructor; lia| discriminate].
  - exact (ty_ok_array _ _ H).
Qed.

Ltac btrue := repeat match goal with
  | H : _ && _ = true |- _ => apply andb_true_iff in H; destruct H
  | H : negb _ = true |- _ => apply negb_true_iff in H
  | H : negb _ = false |- _ => apply negb_false_iff in H
  end.
Ltac bsolve := repeat (apply andb_true_iff; split); auto.

(* ------------------------------------------------------------------ constants *)
Lemma const_of_type_has_type c t :
  0 <= c < 2 -> ty_ok t = true -> has_type (const_of_type c t) t = true.
Proof.
  intros Hc. induction t as [s|sh s|n t IH|ts IH|fs IH] using ty_ind'; intros Hok.
  - apply has_type_scalar. cbn. split; auto. repeat constructor; try lia.
    pose proof (width_pos s). unfold modulus.
    assert (2 ^ 1 <= 2 ^ width s) by (apply Z.pow_le_mono_r; lia). lia.
  - cbn [const_of_type]. apply ty_ok_array in Hok as [Hv _]. pose proof (prod_list_pos sh Hv).
    apply has_type_array. rewrite repeat_length. split; [lia|].
    apply Forall_forall. intros e He. apply repeat_spec in He. subst e.
    pose proof (width_pos s). unfold modulus.
    assert (2 ^ 1 <= 2 ^ width s) by (apply Z.pow_le_mono_r; lia). lia.
  - cbn [const_of_type]. unfold ty_ok in Hok. cbn [ty_valid ty_u64] in Hok. btrue.
    apply has_type_vector. rewrite repeat_length. split; [lia|].
    apply Forall_forall. intros v Hv. apply repeat_spec in Hv. subst v. apply IH. unfold ty_ok. bsolve.
  - cbn [const_of_type]. apply has_type_tuple.
    unfold ty_ok in Hok. cbn [ty_valid ty_u64] in Hok. btrue.
    induction IH as [|t ts Ht _ IHts]; cbn [map]; constructor; cbn [forallb] in *; btrue.
    + apply Ht. unfold ty_ok. bsolve.
    + apply IHts; auto.
  - cbn [const_of_type]. apply has_type_named.
    unfold ty_ok in Hok. cbn [ty_valid ty_u64] in Hok. btrue.
    match goal with H : nodup_strings _ = true |- _ => clear H end.
    induction IH as [|f fs Hf _ IHfs]; cbn [map]; constructor; cbn [forallb] in *; btrue.
    + apply Hf. unfold ty_ok. bsolve.
    + apply IHfs; auto.
Qed.

Ltac inv_infer H :=
  unfold infer in H; cbn [arity] in H;
  match type of H with
  | (if ?c then _ else _) = Ok _ => destruct c eqn:?Harity; [|discriminate]
  | _ => idtac
  end; cbn [infer_op] in H.

Lemma preserves_zeros t0 : preserves (OZeros t0).
Proof.
  intros ts t vs Hu H _. inv_infer H. cbn [op_u64] in Hu.
  destruct (ty_valid t0) eqn:V; cbn [negb] in H; [|discriminate].
  apply register_ok in H as [-> _]. cbn [eval_node safe_typed].
  apply const_of_type_has_type; [lia|]. unfold ty_ok. rewrite V, Hu. reflexivity.
Qed.
Lemma preserves_ones t0 : preserves (OOnes t0).
Proof.
  intros ts t vs Hu H _. inv_infer H. cbn [op_u64] in Hu.
  destruct (ty_valid t0) eqn:V; cbn [negb] in H; [|discriminate].
  apply register_ok in H as [-> _]. cbn [eval_node safe_typed].
  apply const_of_type_has_type; [lia|]. unfold ty_ok. rewrite V, Hu. reflexivity.
Qed.

Lemma preserves_constant t0 v0 : preserves (OConstant t0 v0).
Proof.
  intros ts t vs Hu H _. inv_infer H.
  apply bind_ok in H as (sz & _ & H).
  destruct (has_type v0 t0) eqn:HT; cbn [negb] in H; [|discriminate].
  apply register_ok in H as [-> _]. cbn [eval_node safe_typed]. exact HT.
Qed.

Lemma one_dep ts vs : Z.of_nat (length ts) = 1 -> Forall2 wt vs ts ->
  exists v t, vs = [v] /\ ts = [t] /\ wt v t.
Proof.
  intros L H. destruct H as [|v t vs ts Hv H]; cbn in L; [lia|].
  destruct H; cbn in L; [|lia]. eauto.
Qed.
Lemma two_deps ts vs : Z.of_nat (length ts) = 2 -> Forall2 wt vs ts ->
  exists v0 t0 v1 t1, vs = [v0; v1] /\ ts = [t0; t1] /\ wt v0 t0 /\ wt v1 t1.
Proof.
  intros L H. destruct H as [|v t vs ts Hv H]; cbn in L; [lia|].
  destruct H as [|v' t' vs ts Hv' H]; cbn in L; [lia|].
  destruct H; cbn in L; [|lia]. do 4 eexists. eauto.
Qed.

Lemma preserves_nop : preserves ONOP.
Proof.
  intros ts t vs Hu H HF. inv_infer H. apply zlen_eq in Harity.
  destruct (one_dep _ _ Harity HF) as (v & t1 & -> & -> & Hv & Hok).
  cbn [nth] in H. apply register_ok in H as [-> _]. cbn. exact Hv.
Qed.

(* Per-operation specification proofs (C10), part 5: Stack, Concatenate. *)
From CC Require Import Base.Prelude Base.Scalar Base.Ty Base.Shape Graph.Value Graph.IR Graph.Eval
  Proofs.EvalProofs Graph.Spec Proofs.EvalSpecBase Proofs.EvalSpecProofs Proofs.EvalSpecIndex
  Proofs.EvalSpecMatmul Proofs.EvalSpecGemm.

Lemma Forall2_nth {A B} (R : A -> B -> Prop) l l' i da db :
  Forall2 R l l' -> (i < length l)%nat -> R (nth i l da) (nth i l' db).
Proof.
  intros H; revert i; induction H as [|x y l l' Hxy H IH]; intros [|i] Hi; cbn in *; try lia; auto.
  apply IH. lia.
Qed.

Lemma Forall2_len {A B} (R : A -> B -> Prop) l l' : Forall2 R l l' -> length l = length l'.
Proof. induction 1; cbn; auto. Qed.

Lemma Forall2_weaken {A B} (R R' : A -> B -> Prop) l l' :
  (forall x y, R x y -> R' x y) -> Forall2 R l l' -> Forall2 R' l l'.
Proof. intros H; induction 1; constructor; auto. Qed.

Lemma Forall2_combine_In {A B} (R : A -> B -> Prop) l l' x y :
  Forall2 R l l' -> In (x, y) (combine l l') -> R x y.
Proof.
  induction 1 as [|a b l l' Hab H IH]; cbn [combine In]; [tauto|].
  intros [E|Hin]; [inversion E; now subst|auto].
Qed.

(* ------------------------------------------------------------------ Stack *)
Lemma stack_inner_shape outer inner :
  (if list_eqb Z.eqb (outer ++ inner) outer then [1] else skipn (length outer) (outer ++ inner))
  = stack_inner inner.
Proof.
  destruct inner as [|d inner]; cbn [stack_inner].
  - rewrite app_nil_r. rewrite list_eqb_refl by (intros; lia). reflexivity.
  - destruct (list_eqb Z.eqb (outer ++ d :: inner) outer) eqn:E.
    + apply list_eqb_eq in E; [|intros; lia]. apply (f_equal (@length Z)) in E.
      rewrite app_length in E. cbn [length] in E. lia.
    + rewrite skipn_app, skipn_all, Nat.sub_diag. reflexivity.
Qed.

Lemma prod_stack_inner inner : prod_list (stack_inner inner) = prod_list inner.
Proof. destruct inner; reflexivity. Qed.

Lemma valid_stack_inner inner : valid_shape inner -> valid_shape (stack_inner inner).
Proof. intros H. destruct inner; cbn [stack_inner]; [repeat constructor; lia|exact H]. Qed.

Definition stack_item_ok (inner' : list Z) (es : list Z) (dty : ty) : Prop :=
  is_leaf dty = true /\ bcast_to (dims dty) inner' /\ length es = Z.to_nat (prod_list (dims dty)).

Lemma stack_parts inner' ess dts :
  Forall2 (stack_item_ok inner') ess dts ->
  exists parts,
    mapM (fun p : value * ty => let '(v, dty) := p in
            if negb (is_leaf dty) then Panic else
            let* es := arr_of v in broadcast_to_shape es (dims dty) inner')
         (combine (map VArr ess) dts) = Ok parts /\
    Forall2 (fun p (ed : list Z * ty) =>
               length p = Z.to_nat (prod_list inner') /\
               forall ii, in_shape ii inner' ->
                 get p inner' ii = get (fst ed) (dims (snd ed)) (bcast_index (dims (snd ed)) inner' ii))
            parts (combine ess dts).
Proof.
  induction 1 as [|es dty ess dts (Hleaf & Hb & Hl) H IH].
  - exists []. split; [reflexivity|constructor].
  - destruct IH as (parts & E & F).
    destruct (broadcast_spec es (dims dty) inner' Hb Hl) as (p & Ep & Lp & Gp).
    exists (p :: parts). split.
    + cbn [map combine mapM]. rewrite Hleaf. cbn [negb arr_of bind]. rewrite Ep. cbn [bind].
      rewrite E. reflexivity.
    + cbn [combine]. constructor; [|exact F]. split; [exact Lp|exact Gp].
Qed.

Theorem stack_spec outer inner st ess dts :
  valid_shape outer -> valid_shape inner ->
  let inner' := stack_inner inner in
  Z.of_nat (length ess) = prod_list outer ->
  Forall2 (stack_item_ok inner') ess dts ->
  exists r, eval_node (OStack outer) dts (TArray (outer ++ inner) st) (map VArr ess) = Ok (VArr r) /\
    length r = Z.to_nat (prod_list (outer ++ inner)) /\
    forall oi ii, in_shape oi outer -> in_shape ii inner' ->
      let q := Z.to_nat (flat_pos oi outer) in
      let sq := dims (nth q dts (TTuple [])) in
      get r (outer ++ inner') (oi ++ ii) = get (nth q ess []) sq (bcast_index sq inner' ii).
Proof.
  intros Hvo Hvi inner' Hn HF.
  pose proof (valid_stack_inner _ Hvi) as Hvi'. fold inner' in Hvi'.
  pose proof (prod_list_pos _ Hvi') as Pi.
  destruct (stack_parts inner' ess dts HF) as (parts & E & FP).
  pose proof (Forall2_len _ _ _ HF) as Ld. pose proof (Forall2_len _ _ _ FP) as Lp.
  rewrite combine_length in Lp.
  assert (Lparts : forall l, In l parts -> length l = Z.to_nat (prod_list inner')).
  { intros l Hin. apply (In_nth _ _ []) in Hin as (i & Hi & <-).
    exact (proj1 (Forall2_nth _ _ _ i [] ([], TTuple []) FP Hi)). }
  exists (concat parts). split; [|split].
  - cbn [eval_node shape_of]. rewrite stack_inner_shape. fold inner'. rewrite E. reflexivity.
  - rewrite (concat_length_const_nat _ _ Lparts). rewrite prod_list_app.
    unfold inner'. rewrite <- (prod_stack_inner inner). fold inner'.
    rewrite Z2Nat.inj_mul by lia. f_equal. lia.
  - intros oi ii Hoi Hii q sq. pose proof (flat_pos_range _ _ Hoi) as Rq.
    pose proof (flat_pos_range _ _ Hii) as Ri.
    unfold get at 1. rewrite flat_pos_app by (now apply in_shape_length).
    rewrite (nth_concat_const_z _ (prod_list inner')) by (auto; lia). fold q.
    assert (Hq : (q < length parts)%nat) by (unfold q; lia).
    pose proof (Forall2_nth _ _ _ q [] ([], TTuple []) FP Hq) as (_ & G).
    rewrite combine_nth in G by exact Ld. cbn [fst snd] in G. exact (G ii Hii).
Qed.

(* a trailing dimension 1 does not change positions: the scalar-stacking case *)
Lemma get_trailing_one r sh idx : get r (sh ++ [1]) (idx ++ [0]) = get r sh idx \/ length idx <> length sh.
Proof.
  destruct (Nat.eq_dec (length idx) (length sh)) as [L|L]; [left|now right].
  unfold get. rewrite flat_pos_app by exact L. cbn [flat_pos]. unfold prod_list at 1. cbn [fold_right].
  f_equal. lia.
Qed.

(* ------------------------------------------------------------------ Concatenate *)
Definition concat_item_ok (pre post : list Z) (es : list Z) (n : Z) : Prop :=
  0 < n /\ length es = Z.to_nat (prod_list (pre ++ n :: post)).

Lemma list_sum_z_cons n ns : list_sum_z (n :: ns) = n + list_sum_z ns.
Proof. reflexivity. Qed.

Lemma concat_sum_nonneg pre post ess ns :
  Forall2 (concat_item_ok pre post) ess ns -> 0 <= list_sum_z ns.
Proof.
  induction 1 as [|? ? ? ? (? & _) _ IH]; [unfold list_sum_z; cbn; lia|].
  rewrite list_sum_z_cons. lia.
Qed.

Lemma concat_deps pre post st ess ns :
  Forall2 (concat_item_ok pre post) ess ns ->
  mapM (fun p : value * ty => let '(v, dty) := p in
          let* es := arr_of v in
          if negb (is_arr dty) then Err else
          let* n := znth (shape_of dty) (Z.of_nat (length pre)) in Ok (es, n))
       (combine (map VArr ess) (map (fun n => TArray (pre ++ n :: post) st) ns))
  = Ok (combine ess ns).
Proof.
  induction 1 as [|es n ess ns _ H IH]; [reflexivity|].
  cbn [map combine mapM arr_of bind is_arr negb shape_of].
  rewrite (znth_ok _ _ 0) by (rewrite app_length; cbn [length]; lia).
  rewrite Nat2Z.id, nth_middle. cbn [bind]. rewrite IH. reflexivity.
Qed.

Definition concat_piece (a P : Z) (d : list Z * Z) : list Z :=
  firstn (Z.to_nat (snd d * P)) (skipn (Z.to_nat (a * snd d * P)) (fst d)).

(* one "row" of the result: the a-th slabs of all operands, one after the other *)
Lemma concat_row a P ess ns :
  0 <= a -> 0 < P ->
  Forall2 (fun es n => 0 < n /\ (a + 1) * (n * P) <= Z.of_nat (length es)) ess ns ->
  length (concat (map (concat_piece a P) (combine ess ns))) = Z.to_nat (list_sum_z ns * P) /\
  forall x fp, 0 <= x < list_sum_z ns -> 0 <= fp < P ->
    let q := fst (concat_locate ns x) in let y := snd (concat_locate ns x) in
    (q < length ns)%nat /\ 0 <= y < nth q ns 0 /\
    nth (Z.to_nat (x * P + fp)) (concat (map (concat_piece a P) (combine ess ns))) 0
    = nth (Z.to_nat (a * (nth q ns 0 * P) + (y * P + fp))) (nth q ess []) 0.
Proof.
  intros Ha HP. induction 1 as [|es n ess ns (Hn & Hl) H (IHl & IHn)].
  - split; [reflexivity|]. intros x fp Hx. unfold list_sum_z in Hx. cbn in Hx. lia.
  - cbn [combine map concat]. rewrite list_sum_z_cons.
    assert (Hs : 0 <= list_sum_z ns).
    { clear - H. induction H as [|? ? ? ? (? & _) _ IH]; [unfold list_sum_z; cbn; lia|].
      rewrite list_sum_z_cons. lia. }
    assert (N1 : 0 <= a * n * P) by nia. assert (N2 : 0 < n * P) by nia.
    assert (Lpiece : length (concat_piece a P (es, n)) = Z.to_nat (n * P)).
    { unfold concat_piece. cbn [fst snd]. rewrite firstn_length, skipn_length. nia. }
    split.
    + rewrite app_length, IHl, Lpiece. nia.
    + intros x fp Hx Hfp. cbn [concat_locate]. destruct (Z.ltb_spec x n) as [Hlt|Hge]; cbn [fst snd].
      * cbn [nth length]. split; [lia|]. split; [lia|].
        rewrite app_nth1 by (rewrite Lpiece; nia).
        unfold concat_piece. cbn [fst snd]. rewrite nth_firstn_skipn by nia. f_equal. nia.
      * destruct (IHn (x - n) fp ltac:(lia) Hfp) as (Hq & Hy & E).
        cbn [nth length]. split; [lia|]. split; [exact Hy|].
        rewrite app_nth2 by (rewrite Lpiece; nia). rewrite Lpiece.
        replace (Z.to_nat (x * P + fp) - Z.to_nat (n * P))%nat with (Z.to_nat ((x - n) * P + fp)) by nia.
        exact E.
Qed.

Theorem concatenate_spec pre post ns ess st st' :
  valid_shape pre -> valid_shape post ->
  Forall2 (concat_item_ok pre post) ess ns ->
  let N := list_sum_z ns in let rs := pre ++ N :: post in
  exists r, eval_node (OConcatenate (Z.of_nat (length pre)))
                      (map (fun n => TArray (pre ++ n :: post) st) ns) (TArray rs st') (map VArr ess)
            = Ok (VArr r) /\
    length r = Z.to_nat (prod_list rs) /\
    forall ip x ipost, in_shape ip pre -> 0 <= x < N -> in_shape ipost post ->
      let q := fst (concat_locate ns x) in let y := snd (concat_locate ns x) in
      (q < length ns)%nat /\ 0 <= y < nth q ns 0 /\
      get r rs (ip ++ x :: ipost) = get (nth q ess []) (pre ++ nth q ns 0 :: post) (ip ++ y :: ipost).
Proof.
  intros Hvpre Hvpost HF N rs.
  pose proof (prod_list_pos _ Hvpre) as Ppre. pose proof (prod_list_pos _ Hvpost) as Ppost.
  set (P := prod_list post) in *.
  set (Rowf := fun a => concat (map (concat_piece a P) (combine ess ns))).
  assert (HFa : forall a, 0 <= a < prod_list pre ->
            Forall2 (fun es n => 0 < n /\ (a + 1) * (n * P) <= Z.of_nat (length es)) ess ns).
  { intros a Ha. eapply Forall2_weaken; [|exact HF]. intros es n (Hn & Hl). split; [exact Hn|].
    rewrite Hl. rewrite prod_list_app, prod_list_cons. fold P. rewrite Z2Nat.id by nia.
    apply Z.mul_le_mono_nonneg_r; nia. }
  assert (LRow : forall l, In l (map Rowf (zrange (prod_list pre))) -> length l = Z.to_nat (N * P)).
  { intros l Hin. apply in_map_iff in Hin as (a & <- & Ha). apply In_zrange in Ha.
    exact (proj1 (concat_row a P ess ns ltac:(lia) Ppost (HFa a Ha))). }
  exists (concat (map Rowf (zrange (prod_list pre)))). split; [|split].
  - cbn [eval_node shape_of]. rewrite Nat2Z.id. unfold rs.
    rewrite firstn_app, Nat.sub_diag, firstn_all. cbn [firstn]. rewrite app_nil_r.
    replace (pre ++ N :: post) with ((pre ++ [N]) ++ post) by (now rewrite <- app_assoc).
    rewrite skipn_app. rewrite skipn_all2 by (rewrite app_length; cbn [length]; lia).
    rewrite app_length. cbn [length app]. rewrite Nat.sub_diag. cbn [skipn]. fold P.
    rewrite (concat_deps pre post st ess ns HF). cbn [bind].
    rewrite (mapM_zrange_ok _ Rowf); [reflexivity|].
    intros a Ha. unfold Rowf.
    rewrite (mapM_map _ (concat_piece a P)); [reflexivity|].
    intros (es, n) Hin. pose proof (Forall2_combine_In _ _ _ _ _ (HFa a Ha) Hin) as (Hn & Hl).
    unfold concat_piece. cbn [fst snd]. apply slice_z_ok; nia.
  - rewrite (concat_length_const_nat _ _ LRow). rewrite map_length, zrange_length.
    unfold rs. rewrite prod_list_app, prod_list_cons. fold P.
    pose proof (concat_sum_nonneg _ _ _ _ HF) as HN. fold N in HN.
    assert (0 <= N * P) by nia.
    rewrite <- Z2Nat.inj_mul by lia. reflexivity.
  - intros ip x ipost Hip Hx Hipost q y.
    pose proof (flat_pos_range _ _ Hip) as Ra. pose proof (flat_pos_range _ _ Hipost) as Rf.
    fold P in Rf. set (a := flat_pos ip pre) in *. set (fp := flat_pos ipost post) in *.
    destruct (concat_row a P ess ns ltac:(lia) Ppost (HFa a Ra)) as (_ & Hnth).
    destruct (Hnth x fp Hx Rf) as (Hq & Hy & E). fold q y in Hq, Hy, E.
    split; [exact Hq|]. split; [exact Hy|].
    unfold get. unfold rs.
    rewrite !flat_pos_app by (now apply in_shape_length). cbn [flat_pos].
    rewrite !prod_list_cons. fold P a fp.
    replace (a * (N * P) + (x * P + fp)) with (a * (N * P) + (x * P + fp)) by reflexivity.
    rewrite (nth_concat_const_z _ (N * P)) by (auto; nia).
    rewrite nth_map_zrange by lia. unfold Rowf. exact E.
Qed.

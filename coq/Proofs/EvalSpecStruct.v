(* Per-operation specification proofs (C10), part 7: Reshape (any type), Zip, Repeat,
   ArrayToVector / VectorToArray and their round trips. *)
From CC Require Import Base.Prelude Base.Scalar Base.Ty Base.Shape Graph.Value Graph.IR Graph.Eval
  Proofs.EvalProofs Graph.Spec Proofs.EvalSpecBase Proofs.EvalSpecGemm.

(* ------------------------------------------------------------------ Reshape *)
Lemma flatten_value_tup vs : flatten_value (VTup vs) = flat_map flatten_value vs.
Proof. reflexivity. Qed.

Lemma flatten_value_leaves v : Forall is_leaf_value (flatten_value v).
Proof.
  induction v as [es|vs IH] using value_ind'.
  - repeat constructor.
  - rewrite flatten_value_tup. induction IH as [|x xs Hx _ IHxs]; cbn [flat_map]; [constructor|].
    apply Forall_app. split; assumption.
Qed.

Definition unflat_rep (t1 : ty) :=
  fix go (k : nat) (flat : list value) : result (list value * list value) :=
    match k with
    | O => Ok ([], flat)
    | S k' => let* (v, r) := unflatten_value t1 flat in
              let* (vs, r') := go k' r in Ok (v :: vs, r')
    end.
Definition unflat_list :=
  fix go (ts : list ty) (flat : list value) : result (list value * list value) :=
    match ts with
    | [] => Ok ([], flat)
    | t1 :: ts' => let* (v, r) := unflatten_value t1 flat in
                   let* (vs, r') := go ts' r in Ok (v :: vs, r')
    end.
Definition unflat_named :=
  fix go (fs : list (string * ty)) (flat : list value) : result (list value * list value) :=
    match fs with
    | [] => Ok ([], flat)
    | f :: fs' => let* (v, r) := unflatten_value (snd f) flat in
                  let* (vs, r') := go fs' r in Ok (v :: vs, r')
    end.

Lemma unflatten_vector n t1 flat :
  unflatten_value (TVector n t1) flat = let* (vs, r) := unflat_rep t1 (Z.to_nat n) flat in Ok (VTup vs, r).
Proof. reflexivity. Qed.
Lemma unflatten_tuple ts flat :
  unflatten_value (TTuple ts) flat = let* (vs, r) := unflat_list ts flat in Ok (VTup vs, r).
Proof. reflexivity. Qed.
Lemma unflatten_named fs flat :
  unflatten_value (TNamed fs) flat = let* (vs, r) := unflat_named fs flat in Ok (VTup vs, r).
Proof. reflexivity. Qed.
Lemma unflat_rep_S t1 k flat :
  unflat_rep t1 (S k) flat = let* (v, r) := unflatten_value t1 flat in
                             let* (vs, r') := unflat_rep t1 k r in Ok (v :: vs, r').
Proof. reflexivity. Qed.
Lemma unflat_list_cons t1 ts flat :
  unflat_list (t1 :: ts) flat = let* (v, r) := unflatten_value t1 flat in
                                let* (vs, r') := unflat_list ts r in Ok (v :: vs, r').
Proof. reflexivity. Qed.
Lemma unflat_named_cons f fs flat :
  unflat_named (f :: fs) flat = let* (v, r) := unflatten_value (snd f) flat in
                                let* (vs, r') := unflat_named fs r in Ok (v :: vs, r').
Proof. reflexivity. Qed.

Lemma leaf_count_vector n t : leaf_count (TVector n t) = (Z.to_nat n * leaf_count t)%nat.
Proof. reflexivity. Qed.
Lemma leaf_count_tuple ts : leaf_count (TTuple ts) = list_sum (map leaf_count ts).
Proof. reflexivity. Qed.
Lemma leaf_count_named fs : leaf_count (TNamed fs) = list_sum (map (fun p => leaf_count (snd p)) fs).
Proof. reflexivity. Qed.

Lemma list_sum_cons x l : list_sum (x :: l) = (x + list_sum l)%nat.
Proof. reflexivity. Qed.

Lemma split_leaves (c : nat) (lv : list value) :
  Forall is_leaf_value lv -> (c <= length lv)%nat ->
  lv = firstn c lv ++ skipn c lv /\ Forall is_leaf_value (firstn c lv) /\
  Forall is_leaf_value (skipn c lv) /\ length (firstn c lv) = c /\
  length (skipn c lv) = (length lv - c)%nat.
Proof.
  intros HL Hc. split; [now rewrite firstn_skipn|].
  rewrite <- (firstn_skipn c lv) in HL. apply Forall_app in HL as [H1 H2].
  split; [exact H1|]. split; [exact H2|]. rewrite firstn_length, skipn_length. lia.
Qed.

(* taking a type's worth of leaves off a flat list rebuilds a value of that tree structure
   with exactly those leaves, in order *)
Lemma unflatten_spec t : forall lv rest,
  Forall is_leaf_value lv -> length lv = leaf_count t ->
  exists v, unflatten_value t (lv ++ rest) = Ok (v, rest) /\ flatten_value v = lv /\ shaped v t.
Proof.
  induction t as [s|sh s|n t IH|ts IH|fs IH] using ty_ind'; intros lv rest HL Hlen.
  - destruct lv as [|x [|y lv]]; cbn in Hlen; try lia.
    inversion HL as [|? ? Hx _]; subst. destruct x as [es|vs]; [|contradiction].
    exists (VArr es). split; [reflexivity|]. split; [reflexivity|constructor].
  - destruct lv as [|x [|y lv]]; cbn in Hlen; try lia.
    inversion HL as [|? ? Hx _]; subst. destruct x as [es|vs]; [|contradiction].
    exists (VArr es). split; [reflexivity|]. split; [reflexivity|constructor].
  - rewrite leaf_count_vector in Hlen. rewrite unflatten_vector.
    assert (G : forall k lv rest, Forall is_leaf_value lv -> length lv = (k * leaf_count t)%nat ->
      exists vs, unflat_rep t k (lv ++ rest) = Ok (vs, rest) /\ flat_map flatten_value vs = lv /\
                 length vs = k /\ Forall (fun v => shaped v t) vs).
    { induction k as [|k IHk]; intros lv0 rest0 HL0 Hl0.
      - destruct lv0; [|cbn in Hl0; lia]. exists []. repeat split; constructor.
      - cbn [Nat.mul] in Hl0.
        destruct (split_leaves (leaf_count t) lv0 HL0 ltac:(lia)) as (E & H1 & H2 & L1 & L2).
        rewrite E, <- app_assoc, unflat_rep_S.
        destruct (IH _ (skipn (leaf_count t) lv0 ++ rest0) H1 L1) as (v & Ev & Fv & Sv).
        rewrite Ev. cbn [bind].
        destruct (IHk _ rest0 H2 ltac:(lia)) as (vs & Evs & Fvs & Lvs & Svs).
        rewrite Evs. cbn [bind]. exists (v :: vs). split; [reflexivity|]. split.
        + cbn [flat_map]. now rewrite Fv, Fvs.
        + split; [cbn [length]; lia|constructor; auto]. }
    destruct (G (Z.to_nat n) lv rest HL Hlen) as (vs & Evs & Fvs & Lvs & Svs).
    rewrite Evs. cbn [bind]. exists (VTup vs). split; [reflexivity|]. split.
    + now rewrite flatten_value_tup.
    + now constructor.
  - rewrite leaf_count_tuple in Hlen. rewrite unflatten_tuple.
    assert (G : forall lv rest, Forall is_leaf_value lv -> length lv = list_sum (map leaf_count ts) ->
      exists vs, unflat_list ts (lv ++ rest) = Ok (vs, rest) /\ flat_map flatten_value vs = lv /\
                 Forall2 shaped vs ts).
    { clear lv rest HL Hlen. induction IH as [|t1 ts H1 _ IHts]; intros lv0 rest0 HL0 Hl0.
      - destruct lv0; [|cbn in Hl0; lia]. exists []. repeat split; constructor.
      - cbn [map] in Hl0. rewrite list_sum_cons in Hl0.
        destruct (split_leaves (leaf_count t1) lv0 HL0 ltac:(lia)) as (E & HA & HB & L1 & L2).
        rewrite E, <- app_assoc, unflat_list_cons.
        destruct (H1 _ (skipn (leaf_count t1) lv0 ++ rest0) HA L1) as (v & Ev & Fv & Sv).
        rewrite Ev. cbn [bind].
        destruct (IHts _ rest0 HB ltac:(lia)) as (vs & Evs & Fvs & Svs).
        rewrite Evs. cbn [bind]. exists (v :: vs). split; [reflexivity|]. split.
        + cbn [flat_map]. now rewrite Fv, Fvs.
        + constructor; auto. }
    destruct (G lv rest HL Hlen) as (vs & Evs & Fvs & Svs).
    rewrite Evs. cbn [bind]. exists (VTup vs). split; [reflexivity|]. split.
    + now rewrite flatten_value_tup.
    + now constructor.
  - rewrite leaf_count_named in Hlen. rewrite unflatten_named.
    assert (G : forall lv rest, Forall is_leaf_value lv ->
      length lv = list_sum (map (fun p => leaf_count (snd p)) fs) ->
      exists vs, unflat_named fs (lv ++ rest) = Ok (vs, rest) /\ flat_map flatten_value vs = lv /\
                 Forall2 shaped vs (map snd fs)).
    { clear lv rest HL Hlen. induction IH as [|f fs H1 _ IHfs]; intros lv0 rest0 HL0 Hl0.
      - destruct lv0; [|cbn in Hl0; lia]. exists []. repeat split; constructor.
      - cbn [map] in Hl0. rewrite list_sum_cons in Hl0.
        destruct (split_leaves (leaf_count (snd f)) lv0 HL0 ltac:(lia)) as (E & HA & HB & L1 & L2).
        rewrite E, <- app_assoc, unflat_named_cons.
        destruct (H1 _ (skipn (leaf_count (snd f)) lv0 ++ rest0) HA L1) as (v & Ev & Fv & Sv).
        rewrite Ev. cbn [bind].
        destruct (IHfs _ rest0 HB ltac:(lia)) as (vs & Evs & Fvs & Svs).
        rewrite Evs. cbn [bind]. exists (v :: vs). split; [reflexivity|]. split.
        + cbn [flat_map]. now rewrite Fv, Fvs.
        + cbn [map]. constructor; auto. }
    destruct (G lv rest HL Hlen) as (vs & Evs & Fvs & Svs).
    rewrite Evs. cbn [bind]. exists (VTup vs). split; [reflexivity|]. split.
    + now rewrite flatten_value_tup.
    + now constructor.
Qed.

Theorem reshape_spec new_t t0 t a :
  length (flatten_value a) = leaf_count new_t ->
  exists v, eval_node (OReshape new_t) [t0] t [a] = Ok v /\
            flatten_value v = flatten_value a /\ shaped v new_t.
Proof.
  intros Hl.
  destruct (unflatten_spec new_t (flatten_value a) [] (flatten_value_leaves a) Hl) as (v & E & F & S).
  rewrite app_nil_r in E. exists v. split; [|split; [exact F|exact S]].
  cbn [eval_node nth nth_res bind]. rewrite E. reflexivity.
Qed.

(* ------------------------------------------------------------------ Zip *)
Lemma mapM_tup_of ls : mapM tup_of (map VTup ls) = Ok ls.
Proof. induction ls as [|l ls IH]; cbn [map mapM tup_of bind]; [reflexivity|]. now rewrite IH. Qed.

Lemma zip_rows_spec n : forall ls fuel,
  ls <> [] -> Forall (fun l => length l = n) ls -> (n < fuel)%nat ->
  zip_rows fuel ls = map (fun i => VTup (map (fun l => nth i l (VArr [])) ls)) (seq 0 n).
Proof.
  induction n as [|n IHn]; intros ls fuel Hne HF Hf; (destruct fuel as [|f]; [lia|]); cbn [zip_rows seq map].
  - destruct ls as [|l ls]; [congruence|]. inversion HF as [|? ? Hl _]; subst.
    destruct l; [|cbn in Hl; lia]. reflexivity.
  - assert (Hall : forallb (fun l : list value => match l with [] => false | _ => true end) ls = true).
    { apply forallb_forall. intros l Hl. rewrite Forall_forall in HF. specialize (HF l Hl).
      destruct l; [cbn in HF; lia|reflexivity]. }
    rewrite Hall. destruct ls as [|l0 ls0]; [congruence|]. f_equal.
    + f_equal. apply map_ext. intros l. destruct l; reflexivity.
    + rewrite (IHn (map (@tl value) (l0 :: ls0))).
      * rewrite <- seq_shift, map_map. apply map_ext. intros i. f_equal. rewrite map_map.
        apply map_ext. intros l. destruct l; [destruct i; reflexivity|reflexivity].
      * discriminate.
      * apply Forall_forall. intros l Hl. apply in_map_iff in Hl as (l' & <- & Hl').
        rewrite Forall_forall in HF. specialize (HF l' Hl'). destruct l'; cbn in *; lia.
      * lia.
Qed.

Lemma max_len_ge (ls : list (list value)) l :
  In l ls -> (length l <= fold_right (fun l m => Nat.max (length l) m) O ls)%nat.
Proof.
  induction ls as [|x ls IH]; cbn [In fold_right]; [tauto|]. intros [->|H]; [lia|]. specialize (IH H). lia.
Qed.

Theorem zip_spec dts t (ls : list (list value)) n :
  ls <> [] -> Forall (fun l => length l = n) ls ->
  eval_node OZip dts t (map VTup ls)
  = Ok (VTup (map (fun i => VTup (map (fun l => nth i l (VArr [])) ls)) (seq 0 n))).
Proof.
  intros Hne HF. cbn [eval_node]. rewrite mapM_tup_of. cbn [bind]. f_equal. f_equal.
  apply zip_rows_spec; auto.
  destruct ls as [|l ls]; [congruence|]. pose proof (max_len_ge (l :: ls) l (or_introl eq_refl)) as H.
  inversion HF; subst. lia.
Qed.

(* ------------------------------------------------------------------ ArrayToVector / VectorToArray *)
Definition chunks (k : nat) :=
  fix go (fuel : nat) (l : list Z) : list (list Z) :=
    match fuel with
    | O => []
    | S f => if (length l <? k)%nat then [] else firstn k l :: go f (skipn k l)
    end.

Lemma chunks_S k f l :
  chunks k (S f) l = if (length l <? k)%nat then [] else firstn k l :: chunks k f (skipn k l).
Proof. reflexivity. Qed.

Lemma chunks_spec k : (0 < k)%nat -> forall c l fuel,
  length l = (c * k)%nat -> (c <= fuel)%nat ->
  concat (chunks k fuel l) = l /\ length (chunks k fuel l) = c /\
  Forall (fun x => length x = k) (chunks k fuel l).
Proof.
  intros Hk. induction c as [|c IH]; intros l fuel Hl Hf.
  - destruct l; [|cbn in Hl; lia]. destruct fuel as [|f]; [repeat split; constructor|].
    rewrite chunks_S. replace (length (@nil Z) <? k)%nat with true by (cbn [length]; lia).
    repeat split; constructor.
  - destruct fuel as [|f]; [lia|]. rewrite chunks_S.
    replace (length l <? k)%nat with false by lia.
    destruct (IH (skipn k l) f) as (E & L & F); [rewrite skipn_length; lia|lia|].
    cbn [concat length]. rewrite E, L, firstn_skipn. split; [reflexivity|]. split; [reflexivity|].
    constructor; [rewrite firstn_length; lia|exact F].
Qed.

Lemma chunks_concat k : (0 < k)%nat -> forall cs fuel,
  Forall (fun c => length c = k) cs -> (length cs <= fuel)%nat -> chunks k fuel (concat cs) = cs.
Proof.
  intros Hk. induction cs as [|c cs IH]; intros fuel HF Hf.
  - destruct fuel as [|f]; [reflexivity|]. rewrite chunks_S. cbn [concat].
    replace (length (@nil Z) <? k)%nat with true by (cbn [length]; lia). reflexivity.
  - inversion HF as [|? ? Hc HF']; subst. cbn [length] in Hf. destruct fuel as [|f]; [lia|].
    rewrite chunks_S. cbn [concat]. rewrite app_length.
    replace (length c + length (concat cs) <? length c)%nat with false by lia.
    rewrite firstn_app, Nat.sub_diag, firstn_all. cbn [firstn]. rewrite app_nil_r.
    rewrite skipn_app, skipn_all, Nat.sub_diag. cbn [skipn app]. rewrite IH by (auto; lia). reflexivity.
Qed.

Lemma array_to_vector_eval d rest st t es : 0 < prod_list rest ->
  eval_node OArrayToVector [TArray (d :: rest) st] t [VArr es]
  = Ok (VTup (map VArr (chunks (Z.to_nat (prod_list rest)) (length es) es))).
Proof.
  intros HP. cbn [eval_node nth nth_res bind arr_of is_arr negb shape_of tl].
  replace (prod_list rest <=? 0) with false by lia. reflexivity.
Qed.

Lemma mapM_arr_of cs : mapM arr_of (map VArr cs) = Ok cs.
Proof. induction cs as [|c cs IH]; cbn [map mapM arr_of bind]; [reflexivity|]. now rewrite IH. Qed.

Lemma vector_to_array_eval t0 t cs :
  eval_node OVectorToArray [t0] t [VTup (map VArr cs)] = Ok (VArr (concat cs)).
Proof. cbn [eval_node nth nth_res bind tup_of]. rewrite mapM_arr_of. reflexivity. Qed.

(* numpy: list(a) -- the x-th component is the sub-array a[x] *)
Theorem array_to_vector_spec d rest st t es :
  0 < d -> valid_shape rest -> length es = Z.to_nat (prod_list (d :: rest)) ->
  exists cs, eval_node OArrayToVector [TArray (d :: rest) st] t [VArr es] = Ok (VTup (map VArr cs)) /\
    length cs = Z.to_nat d /\ concat cs = es /\
    forall x, 0 <= x < d ->
      length (nth (Z.to_nat x) cs []) = Z.to_nat (prod_list rest) /\
      forall idx, in_shape idx rest ->
        get (nth (Z.to_nat x) cs []) rest idx = get es (d :: rest) (x :: idx).
Proof.
  intros Hd Hv Hl. pose proof (prod_list_pos _ Hv) as HP. rewrite prod_list_cons in Hl.
  set (k := Z.to_nat (prod_list rest)).
  destruct (chunks_spec k ltac:(lia) (Z.to_nat d) es (length es)) as (E & L & F); [nia|nia|].
  set (cs := chunks k (length es) es) in *.
  exists cs. split; [now apply array_to_vector_eval|].
  split; [exact L|]. split; [exact E|].
  intros x Hx. rewrite Forall_forall in F.
  assert (Lx : length (nth (Z.to_nat x) cs []) = k) by (apply F, nth_In; lia).
  split; [exact Lx|]. intros idx Hin. pose proof (flat_pos_range _ _ Hin) as R.
  unfold get. cbn [flat_pos].
  rewrite <- E. rewrite (nth_concat_const_z _ (prod_list rest)) by (auto; lia). reflexivity.
Qed.

(* numpy.stack(list of equal-shape arrays) *)
Theorem vector_to_array_spec t0 t rest cs :
  valid_shape rest -> Forall (fun c => length c = Z.to_nat (prod_list rest)) cs ->
  eval_node OVectorToArray [t0] t [VTup (map VArr cs)] = Ok (VArr (concat cs)) /\
  length (concat cs) = Z.to_nat (prod_list (Z.of_nat (length cs) :: rest)) /\
  forall x idx, 0 <= x < Z.of_nat (length cs) -> in_shape idx rest ->
    get (concat cs) (Z.of_nat (length cs) :: rest) (x :: idx) = get (nth (Z.to_nat x) cs []) rest idx.
Proof.
  intros Hv HF. pose proof (prod_list_pos _ Hv) as HP. rewrite Forall_forall in HF.
  split; [apply vector_to_array_eval|]. split.
  - rewrite (concat_length_const_nat _ _ HF). rewrite prod_list_cons. nia.
  - intros x idx Hx Hin. pose proof (flat_pos_range _ _ Hin) as R. unfold get. cbn [flat_pos].
    rewrite (nth_concat_const_z _ (prod_list rest)) by (auto; lia). reflexivity.
Qed.

Theorem array_vector_round_trip d rest st t1 t2 es :
  0 < d -> valid_shape rest -> length es = Z.to_nat (prod_list (d :: rest)) ->
  (let* v := eval_node OArrayToVector [TArray (d :: rest) st] t1 [VArr es] in
   eval_node OVectorToArray [t1] t2 [v]) = Ok (VArr es).
Proof.
  intros Hd Hv Hl.
  destruct (array_to_vector_spec d rest st t1 es Hd Hv Hl) as (cs & E & _ & C & _).
  rewrite E. cbn [bind]. rewrite vector_to_array_eval. now rewrite C.
Qed.

Theorem vector_array_round_trip t0 t1 t2 st rest cs :
  valid_shape rest -> cs <> [] -> Forall (fun c => length c = Z.to_nat (prod_list rest)) cs ->
  (let* a := eval_node OVectorToArray [t0] t1 [VTup (map VArr cs)] in
   eval_node OArrayToVector [TArray (Z.of_nat (length cs) :: rest) st] t2 [a]) = Ok (VTup (map VArr cs)).
Proof.
  intros Hv Hne HF. pose proof (prod_list_pos _ Hv) as HP.
  rewrite vector_to_array_eval. cbn [bind]. rewrite array_to_vector_eval by exact HP.
  rewrite chunks_concat; [reflexivity|lia|exact HF|].
  rewrite (concat_length_const_nat _ (Z.to_nat (prod_list rest))) by (now apply Forall_forall). nia.
Qed.

(* ------------------------------------------------------------------ Repeat *)
Lemma nth_repeat_lt {A} (v d : A) n i : (i < n)%nat -> nth i (repeat v n) d = v.
Proof. revert i; induction n as [|n IH]; intros [|i] H; cbn; try lia; auto. apply IH. lia. Qed.

Theorem repeat_spec n dts t v :
  exists l, eval_node (ORepeat n) dts t [v] = Ok (VTup l) /\ length l = Z.to_nat n /\
            forall i, (i < Z.to_nat n)%nat -> nth i l (VArr []) = v.
Proof.
  exists (repeat v (Z.to_nat n)). split; [reflexivity|]. split; [apply repeat_length|].
  intros i Hi. now apply nth_repeat_lt.
Qed.

(* Generated (harness/src/c20.rs, tier gen): (a)+(b) combined for each committed table: the output
   word of the integer evaluation is within rel*f + abs + 2^-p of the exact function, at every
   input of the table's range. *)
From Coq Require Import Reals.
From CC Require Import Base.Prelude Model.Fixed Model.PwlData Proofs.FixedBits Proofs.FixedPwl Proofs.PwlReal.
From CC Require Import Proofs.PwlTables_exp_p10 Proofs.PwlTables_exp_p15 Proofs.PwlTables_sigmoid_p10 Proofs.PwlTables_sigmoid_p15 Proofs.PwlTables_gelu_p10 Proofs.PwlTables_gelu_p15.
Open Scope R_scope.

Lemma exp_p10_total : forall x out, word x -> (-16896 < sv 64 x < 16384)%Z ->
  pwl_eval 10 6 exp_p10_alphas exp_p10_betas exp_p10_left exp_p10_divisor x = Ok out ->
  Rabs (IZR (sv 64 out) / 1024 - exp_fn (IZR (sv 64 x) / 1024))
  <= 4/100 * exp_fn (IZR (sv 64 x) / 1024) + 1/1024 + 1/1024.
Proof.
  intros x out Hx Hd He.
  assert (H1 : (0 <= 10)%Z) by lia. assert (H2 : (0 < 6 < 62)%Z) by lia.
  assert (H3 : table_small exp_p10_alphas exp_p10_betas 11805917184 184110384414720 = true) by (vm_compute; reflexivity).
  assert (H4 : (0 <= 16896)%Z) by lia.
  assert (H5 : (11805917184 * 16896 + 184110384414720 < 2 ^ 63)%Z) by (vm_compute; reflexivity).
  assert (H6 : (exp_p10_left - exp_p10_divisor < sv 64 x < exp_p10_left + 2 ^ 6 * exp_p10_divisor)%Z).
  { unfold exp_p10_left, exp_p10_divisor. change (2 ^ 6)%Z with 64%Z. lia. }
  assert (H7 : (Z.abs (sv 64 x) <= 16896)%Z) by lia.
  assert (H8 : (- 2 ^ 63 <= sv 64 x - exp_p10_left < 2 ^ 63)%Z).
  { unfold exp_p10_left. change (2 ^ 63)%Z with 9223372036854775808%Z. lia. }
  exact (pwl_total exp_fn (4/100) (1/1024) 10 6 exp_p10_alphas exp_p10_betas exp_p10_left exp_p10_divisor
           11805917184 184110384414720 16896 H1 H2 exp_p10_table H3 H4 H5 x out Hx H6 H7 H8 He).
Qed.

Lemma exp_p15_total : forall x out, word x -> (-540672 < sv 64 x < 524288)%Z ->
  pwl_eval 15 6 exp_p15_alphas exp_p15_betas exp_p15_left exp_p15_divisor x = Ok out ->
  Rabs (IZR (sv 64 out) / 32768 - exp_fn (IZR (sv 64 x) / 32768))
  <= 4/100 * exp_fn (IZR (sv 64 x) / 32768) + 1/32768 + 1/32768.
Proof.
  intros x out Hx Hd He.
  assert (H1 : (0 <= 15)%Z) by lia. assert (H2 : (0 < 6 < 62)%Z) by lia.
  assert (H3 : table_small exp_p15_alphas exp_p15_betas 377789349888 188529033640673280 = true) by (vm_compute; reflexivity).
  assert (H4 : (0 <= 540672)%Z) by lia.
  assert (H5 : (377789349888 * 540672 + 188529033640673280 < 2 ^ 63)%Z) by (vm_compute; reflexivity).
  assert (H6 : (exp_p15_left - exp_p15_divisor < sv 64 x < exp_p15_left + 2 ^ 6 * exp_p15_divisor)%Z).
  { unfold exp_p15_left, exp_p15_divisor. change (2 ^ 6)%Z with 64%Z. lia. }
  assert (H7 : (Z.abs (sv 64 x) <= 540672)%Z) by lia.
  assert (H8 : (- 2 ^ 63 <= sv 64 x - exp_p15_left < 2 ^ 63)%Z).
  { unfold exp_p15_left. change (2 ^ 63)%Z with 9223372036854775808%Z. lia. }
  exact (pwl_total exp_fn (4/100) (1/32768) 15 6 exp_p15_alphas exp_p15_betas exp_p15_left exp_p15_divisor
           377789349888 188529033640673280 540672 H1 H2 exp_p15_table H3 H4 H5 x out Hx H6 H7 H8 He).
Qed.

Lemma sigmoid_p10_total : forall x out, word x -> (-8704 < sv 64 x < 8192)%Z ->
  pwl_eval 10 5 sigmoid_p10_alphas sigmoid_p10_betas sigmoid_p10_left sigmoid_p10_divisor x = Ok out ->
  Rabs (IZR (sv 64 out) / 1024 - sigmoid_fn (IZR (sv 64 x) / 1024))
  <= 0 * sigmoid_fn (IZR (sv 64 x) / 1024) + 45/10000 + 1/1024.
Proof.
  intros x out Hx Hd He.
  assert (H1 : (0 <= 10)%Z) by lia. assert (H2 : (0 < 5 < 62)%Z) by lia.
  assert (H3 : table_small sigmoid_p10_alphas sigmoid_p10_betas 252 1047552 = true) by (vm_compute; reflexivity).
  assert (H4 : (0 <= 8704)%Z) by lia.
  assert (H5 : (252 * 8704 + 1047552 < 2 ^ 63)%Z) by (vm_compute; reflexivity).
  assert (H6 : (sigmoid_p10_left - sigmoid_p10_divisor < sv 64 x < sigmoid_p10_left + 2 ^ 5 * sigmoid_p10_divisor)%Z).
  { unfold sigmoid_p10_left, sigmoid_p10_divisor. change (2 ^ 5)%Z with 32%Z. lia. }
  assert (H7 : (Z.abs (sv 64 x) <= 8704)%Z) by lia.
  assert (H8 : (- 2 ^ 63 <= sv 64 x - sigmoid_p10_left < 2 ^ 63)%Z).
  { unfold sigmoid_p10_left. change (2 ^ 63)%Z with 9223372036854775808%Z. lia. }
  exact (pwl_total sigmoid_fn (0) (45/10000) 10 5 sigmoid_p10_alphas sigmoid_p10_betas sigmoid_p10_left sigmoid_p10_divisor
           252 1047552 8704 H1 H2 sigmoid_p10_table H3 H4 H5 x out Hx H6 H7 H8 He).
Qed.

Lemma sigmoid_p15_total : forall x out, word x -> (-278528 < sv 64 x < 262144)%Z ->
  pwl_eval 15 5 sigmoid_p15_alphas sigmoid_p15_betas sigmoid_p15_left sigmoid_p15_divisor x = Ok out ->
  Rabs (IZR (sv 64 out) / 32768 - sigmoid_fn (IZR (sv 64 x) / 32768))
  <= 0 * sigmoid_fn (IZR (sv 64 x) / 32768) + 45/10000 + 1/32768.
Proof.
  intros x out Hx Hd He.
  assert (H1 : (0 <= 15)%Z) by lia. assert (H2 : (0 < 5 < 62)%Z) by lia.
  assert (H3 : table_small sigmoid_p15_alphas sigmoid_p15_betas 8026 1073381376 = true) by (vm_compute; reflexivity).
  assert (H4 : (0 <= 278528)%Z) by lia.
  assert (H5 : (8026 * 278528 + 1073381376 < 2 ^ 63)%Z) by (vm_compute; reflexivity).
  assert (H6 : (sigmoid_p15_left - sigmoid_p15_divisor < sv 64 x < sigmoid_p15_left + 2 ^ 5 * sigmoid_p15_divisor)%Z).
  { unfold sigmoid_p15_left, sigmoid_p15_divisor. change (2 ^ 5)%Z with 32%Z. lia. }
  assert (H7 : (Z.abs (sv 64 x) <= 278528)%Z) by lia.
  assert (H8 : (- 2 ^ 63 <= sv 64 x - sigmoid_p15_left < 2 ^ 63)%Z).
  { unfold sigmoid_p15_left. change (2 ^ 63)%Z with 9223372036854775808%Z. lia. }
  exact (pwl_total sigmoid_fn (0) (45/10000) 15 5 sigmoid_p15_alphas sigmoid_p15_betas sigmoid_p15_left sigmoid_p15_divisor
           8026 1073381376 278528 H1 H2 sigmoid_p15_table H3 H4 H5 x out Hx H6 H7 H8 He).
Qed.

Lemma gelu_p10_total : forall x out, word x -> (-4352 < sv 64 x < 4096)%Z ->
  pwl_eval 10 5 gelu_p10_alphas gelu_p10_betas gelu_p10_left gelu_p10_divisor x = Ok out ->
  Rabs (IZR (sv 64 out) / 1024 - gelu_fn (IZR (sv 64 x) / 1024))
  <= 0 * gelu_fn (IZR (sv 64 x) / 1024) + 7/1000 + 1/1024.
Proof.
  intros x out Hx Hd He.
  assert (H1 : (0 <= 10)%Z) by lia. assert (H2 : (0 < 5 < 62)%Z) by lia.
  assert (H3 : table_small gelu_p10_alphas gelu_p10_betas 1156 308224 = true) by (vm_compute; reflexivity).
  assert (H4 : (0 <= 4352)%Z) by lia.
  assert (H5 : (1156 * 4352 + 308224 < 2 ^ 63)%Z) by (vm_compute; reflexivity).
  assert (H6 : (gelu_p10_left - gelu_p10_divisor < sv 64 x < gelu_p10_left + 2 ^ 5 * gelu_p10_divisor)%Z).
  { unfold gelu_p10_left, gelu_p10_divisor. change (2 ^ 5)%Z with 32%Z. lia. }
  assert (H7 : (Z.abs (sv 64 x) <= 4352)%Z) by lia.
  assert (H8 : (- 2 ^ 63 <= sv 64 x - gelu_p10_left < 2 ^ 63)%Z).
  { unfold gelu_p10_left. change (2 ^ 63)%Z with 9223372036854775808%Z. lia. }
  exact (pwl_total gelu_fn (0) (7/1000) 10 5 gelu_p10_alphas gelu_p10_betas gelu_p10_left gelu_p10_divisor
           1156 308224 4352 H1 H2 gelu_p10_table H3 H4 H5 x out Hx H6 H7 H8 He).
Qed.

Lemma gelu_p15_total : forall x out, word x -> (-139264 < sv 64 x < 131072)%Z ->
  pwl_eval 15 5 gelu_p15_alphas gelu_p15_betas gelu_p15_left gelu_p15_divisor x = Ok out ->
  Rabs (IZR (sv 64 out) / 32768 - gelu_fn (IZR (sv 64 x) / 32768))
  <= 0 * gelu_fn (IZR (sv 64 x) / 32768) + 7/1000 + 1/32768.
Proof.
  intros x out Hx Hd He.
  assert (H1 : (0 <= 15)%Z) by lia. assert (H2 : (0 < 5 < 62)%Z) by lia.
  assert (H3 : table_small gelu_p15_alphas gelu_p15_betas 36944 313098240 = true) by (vm_compute; reflexivity).
  assert (H4 : (0 <= 139264)%Z) by lia.
  assert (H5 : (36944 * 139264 + 313098240 < 2 ^ 63)%Z) by (vm_compute; reflexivity).
  assert (H6 : (gelu_p15_left - gelu_p15_divisor < sv 64 x < gelu_p15_left + 2 ^ 5 * gelu_p15_divisor)%Z).
  { unfold gelu_p15_left, gelu_p15_divisor. change (2 ^ 5)%Z with 32%Z. lia. }
  assert (H7 : (Z.abs (sv 64 x) <= 139264)%Z) by lia.
  assert (H8 : (- 2 ^ 63 <= sv 64 x - gelu_p15_left < 2 ^ 63)%Z).
  { unfold gelu_p15_left. change (2 ^ 63)%Z with 9223372036854775808%Z. lia. }
  exact (pwl_total gelu_fn (0) (7/1000) 15 5 gelu_p15_alphas gelu_p15_betas gelu_p15_left gelu_p15_divisor
           36944 313098240 139264 H1 H2 gelu_p15_table H3 H4 H5 x out Hx H6 H7 H8 He).
Qed.

(* Proofs about Model/TvJson.v (C13, JSON half): printing a well-formed typed value and parsing the
   tree back gives a typed value of the same type that TypedValue::is_equal accepts. *)
From CC Require Import Base.Prelude Base.Scalar Base.Ty Model.Bytes Proofs.BytesProofs Model.TvJson.

(* ------------------------------------------------------------------ generic list / result lemmas *)
Lemma mapM_chain {A B C} (f : A -> result B) (g : B -> result C) (R : A -> C -> Prop) l :
  Forall (fun a => exists b c, f a = Ok b /\ g b = Ok c /\ R a c) l ->
  exists bs cs, mapM f l = Ok bs /\ mapM g bs = Ok cs /\ Forall2 R l cs.
Proof.
  induction 1 as [|a l (b & c & Hf & Hg & Hr) _ (bs & cs & Hbs & Hcs & HR)].
  - exists [], []. repeat split; constructor.
  - exists (b :: bs), (c :: cs). cbn [mapM]. rewrite Hf, Hg. cbn [bind]. rewrite Hbs, Hcs.
    repeat split. constructor; auto.
Qed.

Lemma mapM_all_ok {A B} (f : A -> result B) (h : A -> B) l :
  Forall (fun a => f a = Ok (h a)) l -> mapM f l = Ok (map h l).
Proof. induction 1 as [|a l Ha _ IH]; cbn [mapM map]; [reflexivity|]. now rewrite Ha, IH. Qed.

Lemma Forall2_map_eq {A B} (h : A -> B) l l' : Forall2 (fun a b => b = h a) l l' -> l' = map h l.
Proof. induction 1; cbn [map]; congruence. Qed.

Lemma Forall2_length' {A B} (R : A -> B -> Prop) l l' : Forall2 R l l' -> length l = length l'.
Proof. induction 1; cbn [length]; congruence. Qed.

(* ------------------------------------------------------------------ strings *)
Lemma parse_show_scalar st : parse_scalar (show_scalar st) = Ok st.
Proof. destruct st; reflexivity. Qed.

(* ------------------------------------------------------------------ numbers *)
Definition in_json_range (y : Z) : Prop := - 2 ^ 127 <= y < 2 ^ 128.
Definition wrap (y : Z) : Z := y mod 2 ^ 128.

Lemma num_sdm_ok y : in_json_range y -> num_sdm y = Ok (SArray [wrap y] []).
Proof.
  unfold in_json_range, num_sdm, wrap. intros H.
  destruct ((0 <=? y) && (y <? 2 ^ 64)) eqn:E1.
  { rewrite Z.mod_small by lia. reflexivity. }
  destruct ((- 2 ^ 63 <=? y) && (y <? 0)) eqn:E2; [reflexivity|].
  destruct (y <? 0) eqn:E3.
  { destruct (- 2 ^ 127 <=? y) eqn:E4; [reflexivity|lia]. }
  destruct (y <? 2 ^ 128) eqn:E4; [|lia]. rewrite Z.mod_small by lia. reflexivity.
Qed.

Lemma pow2_pos k : 0 <= k -> 0 < 2 ^ k.
Proof. intros; apply Z.pow_pos_nonneg; lia. Qed.

Lemma cast_u_range k x : 0 <= k -> 0 <= cast_u k x < 2 ^ k.
Proof. intros. unfold cast_u. apply Z.mod_pos_bound. now apply pow2_pos. Qed.
Lemma cast_i_range k x : 0 < k -> - 2 ^ (k - 1) <= cast_i k x < 2 ^ (k - 1).
Proof.
  intros Hk. unfold cast_i. pose proof (Z.mod_pos_bound x (2 ^ k) (pow2_pos k ltac:(lia))) as Hr.
  assert (E : 2 ^ k = 2 * 2 ^ (k - 1)) by (rewrite <- Z.pow_succ_r by lia; f_equal; lia).
  destruct (2 ^ (k - 1) <=? x mod 2 ^ k) eqn:L; lia.
Qed.

Lemma cast_u_json k x : 0 <= k <= 128 -> in_json_range (cast_u k x).
Proof.
  intros Hk. unfold in_json_range. pose proof (cast_u_range k x ltac:(lia)).
  pose proof (Z.pow_le_mono_r 2 k 128 ltac:(lia) ltac:(lia)). pose proof (pow2_pos 127 ltac:(lia)). lia.
Qed.
Lemma cast_i_json k x : 0 < k <= 128 -> in_json_range (cast_i k x).
Proof.
  intros Hk. unfold in_json_range. pose proof (cast_i_range k x ltac:(lia)).
  pose proof (Z.pow_le_mono_r 2 (k - 1) 127 ltac:(lia) ltac:(lia)).
  assert (2 ^ 127 < 2 ^ 128) by (apply Z.pow_lt_mono_r; lia). lia.
Qed.
Lemma reader_range st x : in_json_range (reader st x).
Proof. destruct st; cbn [reader]; (apply cast_u_json || apply cast_i_json); lia. Qed.

(* ------------------------------------------------------------------ little-endian bytes *)
Lemma from_le_bytes_range c : Forall byte c -> 0 <= from_le_bytes c < 256 ^ Z.of_nat (length c).
Proof.
  induction 1 as [|b c Hb _ IH]; cbn [from_le_bytes length].
  - rewrite Z.pow_0_r. lia.
  - rewrite Nat2Z.inj_succ, Z.pow_succ_r by lia. unfold byte in Hb. lia.
Qed.

Lemma le_from_le c : Forall byte c -> le_bytes (length c) (from_le_bytes c) = c.
Proof.
  induction 1 as [|b c Hb Hc IH]; cbn [from_le_bytes length le_bytes]; [reflexivity|].
  unfold byte in Hb. pose proof (from_le_bytes_range c Hc).
  replace ((b + 256 * from_le_bytes c) mod 256) with b
    by (apply Z.mod_unique with (q := from_le_bytes c); lia).
  replace ((b + 256 * from_le_bytes c) / 256) with (from_le_bytes c)
    by (apply Z.div_unique with (r := b); lia).
  now rewrite IH.
Qed.

Lemma le_bytes_add_mul n a q : le_bytes n (a + q * 256 ^ Z.of_nat n) = le_bytes n a.
Proof.
  revert a q. induction n as [|n IH]; intros a q; [reflexivity|].
  cbn [le_bytes]. rewrite Nat2Z.inj_succ, Z.pow_succ_r by lia.
  replace (a + q * (256 * 256 ^ Z.of_nat n)) with (a + (q * 256 ^ Z.of_nat n) * 256) by ring.
  rewrite Z.mod_add, Z.div_add by lia. now rewrite IH.
Qed.

(* what vec_u128_from_bytes computes for one chunk of a non-bit type *)
Definition dec128 (st : scalar) (chunk : list Z) : Z :=
  let res := from_le_bytes chunk in
  let pad := signed st && (byte_len st <? 128 / 8) in
  let sign_mask := if pad then Z.lxor (2 ^ 128 - 1) (2 ^ (byte_len st * 8) - 1) else 0 in
  if pad && (res / 2 ^ (byte_len st * 8 - 1) =? 1) then Z.lor res sign_mask else res.

Lemma reader_nonbit st : st <> Bit ->
  reader st = if signed st then cast_i (width st) else cast_u (width st).
Proof. destruct st; intros; try congruence; reflexivity. Qed.

Lemma dec128_form st c : st <> Bit -> Forall byte c -> length c = nbytes st ->
  exists e, dec128 st c = from_le_bytes c + e * 2 ^ width st.
Proof.
  intros Hst Hc Hl. unfold dec128. pose proof (from_le_bytes_range c Hc) as Hr.
  rewrite Hl, pow256_nbytes in Hr by auto. unfold modulus in Hr.
  set (r := from_le_bytes c) in *. rewrite bl8 by auto.
  destruct (signed st && (byte_len st <? 128 / 8)) eqn:P; cbn [andb]; [|exists 0; lia].
  rewrite msb_test by (auto using width_pos).
  destruct (2 ^ (width st - 1) <=? r) eqn:M; [|exists 0; lia].
  destruct (modulus_divides_128 st) as (q & Hq & Hq0). unfold modulus in Hq.
  rewrite (mask_eq st Hst), Hq. replace (q * 2 ^ width st - 2 ^ width st) with ((q - 1) * 2 ^ width st) by ring.
  rewrite lor_low_high by (pose proof (width_pos st); lia). exists (q - 1). reflexivity.
Qed.

(* reading one element, printing it with the type's reader, parsing the number (wrap) and writing
   it again gives the chunk back *)
Lemma elem_json_roundtrip st c : st <> Bit -> Forall byte c -> length c = nbytes st ->
  le_bytes (nbytes st) (as_u128 (wrap (reader st (dec128 st c)))) = c.
Proof.
  intros Hst Hc Hl. destruct (dec128_form st c Hst Hc Hl) as (e & He).
  pose proof (from_le_bytes_range c Hc) as Hr. rewrite Hl, pow256_nbytes in Hr by auto.
  unfold modulus in Hr. set (r := from_le_bytes c) in *. set (M := 2 ^ width st) in *.
  assert (HM : 0 < M) by (apply pow2_pos; pose proof (width_pos st); lia).
  assert (Hd : dec128 st c mod M = r).
  { rewrite He, Z.mod_add by lia. apply Z.mod_small; lia. }
  (* the printed integer is congruent to r modulo 2^w *)
  assert (Hy : exists e', reader st (dec128 st c) = r + e' * M).
  { rewrite reader_nonbit by auto. destruct (signed st).
    - unfold cast_i. fold M. rewrite Hd. destruct (2 ^ (width st - 1) <=? r); [exists (-1)|exists 0]; lia.
    - unfold cast_u. fold M. rewrite Hd. exists 0; lia. }
  destruct Hy as (e' & Hy). rewrite Hy.
  destruct (modulus_divides_128 st) as (q & Hq & Hq0). unfold modulus in Hq. fold M in Hq.
  assert (Hw : wrap (r + e' * M) mod M = r).
  { unfold wrap. rewrite Hq, mod_mod_divides by lia. rewrite Z.mod_add by lia. apply Z.mod_small; lia. }
  assert (Hp : 0 <= wrap (r + e' * M)) by (unfold wrap; apply Z.mod_pos_bound; apply pow2_pos; lia).
  set (p := wrap (r + e' * M)) in *.
  unfold as_u128. replace (0 <=? p) with true by lia.
  replace p with (r + (p / M) * 256 ^ Z.of_nat (nbytes st)).
  2:{ rewrite pow256_nbytes by auto. unfold modulus. fold M. pose proof (Z.div_mod p M ltac:(lia)). lia. }
  rewrite le_bytes_add_mul. rewrite <- Hl. apply le_from_le; auto.
Qed.

(* ------------------------------------------------------------------ chunking *)
Lemma chunks_exact_spec {A} k n : (0 < k)%nat -> forall (l : list A) fuel,
  length l = (n * k)%nat -> (n <= fuel)%nat ->
  concat (chunks_exact fuel k l) = l /\ Forall (fun c => length c = k) (chunks_exact fuel k l) /\
  length (chunks_exact fuel k l) = n.
Proof.
  intros Hk. induction n as [|n IH]; intros l fuel Hl Hf.
  - destruct l; [|discriminate]. destruct fuel; cbn [chunks_exact length]; [repeat split; constructor|].
    replace (0 <? k)%nat with true by (symmetry; apply Nat.ltb_lt; lia). repeat split; constructor.
  - destruct fuel as [|fuel]; [lia|]. cbn [chunks_exact].
    replace (length l <? k)%nat with false by (symmetry; apply Nat.ltb_ge; lia).
    destruct (IH (skipn k l) fuel) as (H1 & H2 & H3); [rewrite skipn_length; lia | lia |].
    cbn [concat length]. rewrite H1, H3, firstn_skipn. repeat split; auto.
    constructor; auto. rewrite firstn_length. lia.
Qed.

Lemma chunks_spec {A} k n : (0 < k)%nat -> forall (l : list A) fuel,
  length l = (n * k)%nat -> (n <= fuel)%nat ->
  concat (chunks fuel k l) = l /\ Forall (fun c => length c = k) (chunks fuel k l) /\
  length (chunks fuel k l) = n.
Proof.
  intros Hk. induction n as [|n IH]; intros l fuel Hl Hf.
  - destruct l; [|discriminate]. rewrite chunks_nil. repeat split; constructor.
  - destruct fuel as [|fuel]; [lia|]. destruct l as [|a l0] eqn:E; [cbn [length] in Hl; lia|].
    rewrite <- E in *. assert (Hch : chunks (S fuel) k l = firstn k l :: chunks fuel k (skipn k l))
      by (subst l; reflexivity). rewrite Hch.
    destruct (IH (skipn k l) fuel) as (H1 & H2 & H3); [rewrite skipn_length; lia | lia |].
    cbn [concat length]. rewrite H1, H3, firstn_skipn. repeat split; auto.
    constructor; auto. rewrite firstn_length. lia.
Qed.

Lemma Forall_concat_inv {A} (P : A -> Prop) cs : Forall P (concat cs) -> Forall (Forall P) cs.
Proof.
  induction cs as [|c cs IH]; cbn [concat]; intros H; constructor.
  - apply Forall_app in H. tauto.
  - apply IH. apply Forall_app in H. tauto.
Qed.

Lemma flat_map_fix {A} (g : list A -> list A) cs :
  Forall (fun c => g c = c) cs -> flat_map g cs = concat cs.
Proof. induction 1 as [|c cs Hc _ IH]; cbn [flat_map concat]; congruence. Qed.

(* ------------------------------------------------------------------ non-bit leaves *)
Lemma nonbit_leaf st b n : st <> Bit -> Forall byte b -> length b = (n * nbytes st)%nat ->
  exists xs, vec_u128_from_bytes st b = Ok xs /\ length xs = n /\
             vec_to_bytes st (map (fun x => wrap (reader st x)) xs) = Ok b.
Proof.
  intros Hst Hb Hl. pose proof (nbytes_pos st) as Hnb.
  destruct (chunks_exact_spec (nbytes st) n Hnb b (length b) Hl ltac:(nia)) as (Hc & Hlen & Hn).
  exists (map (dec128 st) (chunks_exact (length b) (nbytes st) b)). split; [|split].
  - unfold vec_u128_from_bytes. rewrite vec_from_bytes_nonbit by auto. cbv zeta.
    rewrite Hl at 1. rewrite Nat2Z.inj_mul, <- byte_len_nbytes.
    rewrite Z.mod_mul by (destruct st; vm_compute; congruence).
    change (0 =? 0) with true. reflexivity.
  - now rewrite map_length.
  - rewrite vec_to_bytes_nonbit by auto. rewrite !flat_map_concat_map, !map_map, <- flat_map_concat_map.
    f_equal. etransitivity; [apply flat_map_fix|exact Hc].
    rewrite <- Hc in Hb. apply Forall_concat_inv in Hb.
    rewrite Forall_forall in *. intros c Hin. apply elem_json_roundtrip; auto.
Qed.

(* ------------------------------------------------------------------ is_equal on leaves *)
(* two byte strings that is_equal cannot tell apart when the type has [r] bits in its last byte *)
Fixpoint agree (r : Z) (a b : list Z) : Prop :=
  match a, b with
  | x :: a', y :: b' =>
      match a', b' with
      | [], [] => if r =? 0 then x = y else x mod 2 ^ r = y mod 2 ^ r
      | _, _ => x = y /\ agree r a' b'
      end
  | _, _ => False
  end.

Lemma agree_refl r a : a <> [] -> agree r a a.
Proof.
  induction a as [|x a IH]; [congruence|]. intros _. cbn [agree].
  destruct a as [|x' a']; [destruct (r =? 0); reflexivity|]. split; [reflexivity|]. apply IH. discriminate.
Qed.

Lemma agree_length r a b : agree r a b -> length a = length b.
Proof.
  revert b. induction a as [|x a IH]; intros [|y b] H; cbn [agree] in H; try contradiction.
  destruct a as [|x' a'], b as [|y' b']; try reflexivity; destruct H as [_ H];
    try (cbn [agree] in H; contradiction). cbn [length]. f_equal. apply (IH _ H).
Qed.

Lemma agree_leaf r a b : agree r a b ->
  exists n1 x y, length a = S n1 /\ cmp_bytes n1 a b = Ok true /\
                 nth_error a n1 = Some x /\ nth_error b n1 = Some y /\
                 (if r =? 0 then x = y else x mod 2 ^ r = y mod 2 ^ r) /\
                 (x = y -> cmp_bytes (S n1) a b = Ok true).
Proof.
  revert b. induction a as [|x a IH]; intros [|y b] H; cbn [agree] in H; try contradiction.
  destruct a as [|x' a'], b as [|y' b'].
  - exists 0%nat, x, y. repeat split; auto. intros ->. cbn [cmp_bytes]. now rewrite Z.eqb_refl.
  - destruct H as [_ H]. cbn [agree] in H. contradiction.
  - destruct H as [_ H]. cbn [agree] in H. contradiction.
  - destruct H as [-> H]. destruct (IH _ H) as (n1 & x0 & y0 & Hl & Hc & Ha & Hb & Hr & He).
    exists (S n1), x0, y0. repeat split; auto.
    + cbn [length] in *. lia.
    + cbn [cmp_bytes]. now rewrite Z.eqb_refl.
    + intros E. specialize (He E). remember (S n1) as k. cbn [cmp_bytes]. now rewrite Z.eqb_refl.
Qed.

Lemma leaf_equal_agree s a b : agree (s mod 8) a b -> leaf_equal s a b = Ok true.
Proof.
  intros H. destruct (agree_leaf _ a b H) as (n1 & x & y & Hl & Hc & Ha & Hb & Hr & He).
  unfold leaf_equal. rewrite Hl. destruct (s mod 8 =? 0) eqn:E.
  - rewrite (He Hr). cbn [bind negb]. rewrite Ha, Hb. subst. now rewrite Z.eqb_refl.
  - rewrite Hc. cbn [bind negb]. rewrite Ha, Hb, Hr. now rewrite Z.eqb_refl.
Qed.

(* ------------------------------------------------------------------ bit leaves *)
Definition all_bytes : list Z := map Z.of_nat (seq 0 256).
Lemma in_all_bytes b : byte b -> In b all_bytes.
Proof.
  intros [H1 H2]. unfold all_bytes. apply in_map_iff. exists (Z.to_nat b). split; [lia|].
  apply in_seq. lia.
Qed.

Definition pack_chk (r : nat) (b : Z) : bool :=
  match pack_byte 0 (firstn r (unpack_byte b)) with
  | Ok v => (0 <=? v) && (v <? 256) && (v mod 2 ^ Z.of_nat r =? b mod 2 ^ Z.of_nat r)
            && (if (r =? 8)%nat then v =? b else true)
  | _ => false
  end.
Lemma pack_chk_all : forallb (fun r => forallb (pack_chk r) all_bytes) [1; 2; 3; 4; 5; 6; 7; 8]%nat = true.
Proof. vm_compute. reflexivity. Qed.

Lemma pack_firstn r b : byte b -> (1 <= r <= 8)%nat ->
  exists v, pack_byte 0 (firstn r (unpack_byte b)) = Ok v /\ byte v /\
            v mod 2 ^ Z.of_nat r = b mod 2 ^ Z.of_nat r /\ (r = 8%nat -> v = b).
Proof.
  intros Hb Hr. pose proof pack_chk_all as H. rewrite forallb_forall in H.
  assert (Hin : In r [1; 2; 3; 4; 5; 6; 7; 8]%nat) by (cbn [In]; lia).
  specialize (H r Hin). rewrite forallb_forall in H. specialize (H b (in_all_bytes b Hb)).
  unfold pack_chk in H. destruct (pack_byte 0 (firstn r (unpack_byte b))) as [v| | |]; try discriminate.
  exists v. apply andb_true_iff in H as [H H4]. apply andb_true_iff in H as [H H3].
  apply andb_true_iff in H as [H1 H2]. split; [reflexivity|]. split; [unfold byte; lia|].
  split; [lia|]. intros ->. cbn in H4. lia.
Qed.

Lemma unpack_length b : length (unpack_byte b) = 8%nat.
Proof. reflexivity. Qed.

Lemma unpack_bits b : Forall is_bit (unpack_byte b).
Proof.
  unfold unpack_byte. apply Forall_map. apply Forall_forall. intros i _. unfold is_bit.
  pose proof (Z.mod_pos_bound (b / 2 ^ i) 2 ltac:(lia)). lia.
Qed.

Lemma chunks_cons {A} f k (l : list A) :
  l <> [] -> chunks (S f) k l = firstn k l :: chunks f k (skipn k l).
Proof. destruct l; [congruence|reflexivity]. Qed.

Lemma bits_repack bs : Forall byte bs -> forall n fuel,
  bs <> [] -> (8 * (length bs - 1) < n <= 8 * length bs)%nat -> (length bs <= fuel)%nat ->
  exists bs', mapM (pack_byte 0) (chunks fuel 8 (firstn n (flat_map unpack_byte bs))) = Ok bs' /\
              Forall byte bs' /\ agree (Z.of_nat n mod 8) bs bs'.
Proof.
  induction 1 as [|b bs1 Hb Hbs IH]; intros n fuel Hne Hn Hf; [congruence|].
  destruct fuel as [|fuel]; [cbn [length] in Hf; lia|].
  cbn [flat_map]. destruct bs1 as [|b1 bs2].
  - (* last byte *)
    cbn [flat_map length] in *. rewrite app_nil_r.
    destruct (pack_firstn n b Hb ltac:(lia)) as (v & Hv & Hbv & Hm & H8).
    assert (Hl : length (firstn n (unpack_byte b)) = n) by (rewrite firstn_length, unpack_length; lia).
    rewrite chunks_cons by (intros E; rewrite E in Hl; cbn [length] in Hl; lia).
    rewrite firstn_all2 by lia. rewrite skipn_all2 by lia. rewrite chunks_nil.
    cbn [mapM]. rewrite Hv. cbn [bind]. exists [v]. split; [reflexivity|]. split; [constructor; [exact Hbv|constructor]|].
    cbn [agree]. destruct (Z.of_nat n mod 8 =? 0) eqn:E.
    + symmetry. apply H8. lia.
    + replace (Z.of_nat n mod 8) with (Z.of_nat n) by lia. congruence.
  - (* a complete byte followed by more *)
    cbn [length] in Hn, Hf.
    rewrite firstn_app, unpack_length. rewrite (firstn_all2 (unpack_byte b)) by (rewrite unpack_length; lia).
    rewrite chunks_cons by (destruct (unpack_byte b) eqn:E; [discriminate|discriminate]).
    rewrite firstn_app_exact, skipn_app_exact by apply unpack_length.
    destruct (pack_firstn 8 b Hb ltac:(lia)) as (v & Hv & _ & _ & H8). specialize (H8 eq_refl). subst v.
    rewrite (firstn_all2 (unpack_byte b)) in Hv by (rewrite unpack_length; lia).
    destruct (IH (n - 8)%nat fuel ltac:(discriminate) ltac:(cbn [length]; lia) ltac:(cbn [length]; lia))
      as (bs' & Hm & Hbb & Hag).
    cbn [mapM]. rewrite Hv. cbn [bind]. rewrite Hm. cbn [bind]. exists (b :: bs').
    split; [reflexivity|]. split; [constructor; auto|].
    replace (Z.of_nat n mod 8) with (Z.of_nat (n - 8) mod 8) by lia.
    pose proof (agree_length _ _ _ Hag) as Hl. destruct bs' as [|b' bs'']; [discriminate|].
    cbn [agree]. split; [reflexivity|]. exact Hag.
Qed.

(* ------------------------------------------------------------------ parsing the printed objects *)
Lemma parse_arr l : parse_sdm (JArr l) = (let* data := mapM parse_sdm l in visit_seq data).
Proof. reflexivity. Qed.

Lemma parse_scalar_obj st value x sh :
  parse_sdm value = Ok (SArray [x] sh) ->
  parse_sdm (obj_scalar "scalar" st value) = rmap SValue (from_scalar x st).
Proof.
  intros H. unfold obj_scalar. cbn [parse_sdm read_fields fst snd String.eqb Ascii.eqb Bool.eqb
    as_string bind parse_kind m_kind m_type m_value m_name m_num mapst0 is_some].
  rewrite H. cbn [bind finish_map m_kind m_type m_value m_name m_num is_some orb].
  rewrite parse_show_scalar. reflexivity.
Qed.

Lemma parse_array_obj st value a sh :
  parse_sdm value = Ok (SArray a sh) ->
  parse_sdm (obj_scalar "array" st value) = rmap SValue (from_shaped a sh st).
Proof.
  intros H. unfold obj_scalar. cbn [parse_sdm read_fields fst snd String.eqb Ascii.eqb Bool.eqb
    as_string bind parse_kind m_kind m_type m_value m_name m_num mapst0 is_some].
  rewrite H. cbn [bind finish_map m_kind m_type m_value m_name m_num is_some orb].
  rewrite parse_show_scalar. reflexivity.
Qed.

Lemma parse_vector_obj els v :
  parse_sdm (JArr els) = Ok (SVector v) ->
  parse_sdm (obj_container "vector" els) = rmap SValue (vector_from_vector v).
Proof.
  intros H. unfold obj_container. cbn [parse_sdm read_fields fst snd String.eqb Ascii.eqb Bool.eqb
    as_string bind parse_kind m_kind m_type m_value m_name m_num mapst0 is_some].
  change (let* data := mapM parse_sdm els in visit_seq data) with (parse_sdm (JArr els)).
  rewrite H. reflexivity.
Qed.

Lemma parse_tuple_obj els v :
  parse_sdm (JArr els) = Ok (SVector v) ->
  parse_sdm (obj_container "tuple" els)
  = rmap SValue (tuple_from_vector (map (fun tv => (None, tv)) v)).
Proof.
  intros H. unfold obj_container. cbn [parse_sdm read_fields fst snd String.eqb Ascii.eqb Bool.eqb
    as_string bind parse_kind m_kind m_type m_value m_name m_num mapst0 is_some].
  change (let* data := mapM parse_sdm els in visit_seq data) with (parse_sdm (JArr els)).
  rewrite H. reflexivity.
Qed.

Lemma parse_named_tuple_obj els v :
  parse_sdm (JArr els) = Ok (SNamed v) ->
  parse_sdm (obj_container "named tuple" els)
  = (let* nv := mapM (fun p => let* tv := tv_new (fst (snd p)) (snd (snd p)) in
                               Ok (Some (fst p), tv)) v in
     rmap SValue (tuple_from_vector nv)).
Proof.
  intros H. unfold obj_container. cbn [parse_sdm read_fields fst snd String.eqb Ascii.eqb Bool.eqb
    as_string bind parse_kind m_kind m_type m_value m_name m_num mapst0 is_some].
  change (let* data := mapM parse_sdm els in visit_seq data) with (parse_sdm (JArr els)).
  rewrite H. reflexivity.
Qed.

Lemma parse_named_obj name j tv :
  parse_sdm j = Ok (SValue tv) -> parse_sdm (obj_named name j) = Ok (SNamed [(name, tv)]).
Proof.
  intros H. unfold obj_named. cbn [parse_sdm read_fields fst snd String.eqb Ascii.eqb Bool.eqb
    as_string bind parse_kind m_kind m_type m_value m_name m_num mapst0 is_some].
  rewrite H. reflexivity.
Qed.

(* ------------------------------------------------------------------ nested arrays *)
Lemma parse_nums arr : Forall in_json_range arr ->
  mapM parse_sdm (map JNum arr) = Ok (map (fun y => SArray [wrap y] []) arr).
Proof.
  induction 1 as [|y arr Hy _ IH]; [reflexivity|]. cbn [map mapM parse_sdm].
  rewrite (num_sdm_ok y Hy). cbn [bind]. rewrite IH. reflexivity.
Qed.

Lemma visit_seq_arrays (cs : list (list Z)) sh' : cs <> [] ->
  visit_seq (map (fun c => SArray c sh') cs) = Ok (SArray (concat cs) (Z.of_nat (length cs) :: sh')).
Proof.
  intros Hne. destruct cs as [|c cs]; [congruence|]. cbn [map visit_seq sdm_tag].
  assert (Hall : forall l, forallb (fun d => sdm_tag d =? 0) (map (fun c => SArray c sh') l) = true).
  { induction l as [|x l IHl]; [reflexivity|]. cbn [map forallb sdm_tag].
    change (0 =? 0) with true. cbn [andb]. exact IHl. }
  change (SArray c sh' :: map (fun c0 => SArray c0 sh') cs) with (map (fun c0 => SArray c0 sh') (c :: cs)).
  rewrite Hall. cbn [negb]. f_equal. f_equal.
  - generalize (c :: cs). induction l as [|x l IHl]; [reflexivity|]. cbn [map flat_map concat]. now rewrite IHl.
  - now rewrite map_length.
Qed.

Lemma concat_singletons {A B} (f : A -> B) l : concat (map (fun y => [f y]) l) = map f l.
Proof. induction l; cbn [map concat app]; congruence. Qed.

Lemma prod_pos sh : Forall (fun d => 0 < d) sh -> 0 < prod_list sh.
Proof. induction 1; cbn [prod_list fold_right]; [lia|]. fold (prod_list l). nia. Qed.

Lemma print_shaped_step len d sh'' arr :
  print_shaped (len :: d :: sh'') arr =
  (if len =? 0 then Panic else
   if negb (Z.of_nat (length arr) mod len =? 0) then Err else
   let cs := Z.of_nat (length arr) / len in
   if cs =? 0 then Panic else
   let* els := mapM (print_shaped (d :: sh'')) (chunks (length arr) (Z.to_nat cs) arr) in
   Ok (JArr els)).
Proof. reflexivity. Qed.

Lemma shaped_roundtrip shape : forall arr,
  shape <> [] -> Forall (fun d => 0 < d) shape -> Z.of_nat (length arr) = prod_list shape ->
  Forall in_json_range arr ->
  exists j, print_shaped shape arr = Ok j /\ parse_sdm j = Ok (SArray (map wrap arr) shape).
Proof.
  induction shape as [|len sh' IH]; intros arr Hne Hpos Hlen Hr; [congruence|].
  apply Forall_cons_iff in Hpos as [Hl0 Hpos']. cbn [prod_list fold_right] in Hlen. fold (prod_list sh') in Hlen.
  destruct sh' as [|d sh''].
  - cbn [print_shaped]. eexists. split; [reflexivity|]. rewrite parse_arr, parse_nums by auto. cbn [bind].
    replace (map (fun y => SArray [wrap y] []) arr)
      with (map (fun c => SArray c []) (map (fun y => [wrap y]) arr)) by (now rewrite map_map).
    rewrite visit_seq_arrays.
    + rewrite concat_singletons, map_length. cbn [prod_list fold_right] in Hlen. repeat f_equal. lia.
    + destruct arr; [cbn [length prod_list fold_right] in Hlen; lia|discriminate].
  - set (sh' := d :: sh'') in *. pose proof (prod_pos sh' Hpos') as HP. set (P := prod_list sh') in *.
    assert (Hk : (0 < Z.to_nat P)%nat) by lia.
    assert (Hla : length arr = (Z.to_nat len * Z.to_nat P)%nat).
    { rewrite <- Z2Nat.inj_mul by lia. rewrite <- Hlen. now rewrite Nat2Z.id. }
    destruct (chunks_spec (Z.to_nat P) (Z.to_nat len) Hk arr (length arr) Hla ltac:(nia)) as (Hc & Hcl & Hcn).
    set (cs := chunks (length arr) (Z.to_nat P) arr) in *.
    assert (Hall : Forall (fun c => exists j d0, print_shaped sh' c = Ok j /\ parse_sdm j = Ok d0 /\
                                                 d0 = SArray (map wrap c) sh') cs).
    { rewrite <- Hc in Hr. apply Forall_concat_inv in Hr. rewrite Forall_forall in Hr, Hcl |- *. intros c Hin.
      destruct (IH c ltac:(discriminate) Hpos' ltac:(rewrite (Hcl c Hin); lia) (Hr c Hin)) as (j & Hj1 & Hj2).
      exists j, (SArray (map wrap c) sh'). auto. }
    destruct (mapM_chain _ _ _ cs Hall) as (js & ds & Hjs & Hds & HR).
    apply Forall2_map_eq in HR.
    exists (JArr js). split.
    + unfold sh'. rewrite print_shaped_step. fold sh'. fold P.
      replace (len =? 0) with false by lia. rewrite Hlen.
      replace (len * P) with (P * len) by ring. rewrite Z.mod_mul, Z.div_mul by lia.
      change (0 =? 0) with true. cbn [negb]. replace (P =? 0) with false by lia.
      fold cs. rewrite Hjs. reflexivity.
    + rewrite parse_arr, Hds. cbn [bind]. rewrite HR.
      replace (map (fun c => SArray (map wrap c) sh') cs)
        with (map (fun c => SArray c sh') (map (map wrap) cs)) by (now rewrite map_map).
      rewrite visit_seq_arrays.
      * rewrite <- concat_map, Hc, map_length, Hcn. repeat f_equal. lia.
      * intros E. apply (f_equal (@length _)) in E. rewrite map_length, Hcn in E. cbn [length] in E. lia.
Qed.

(* ------------------------------------------------------------------ well-formed typed values *)
(* A typed value as TypedValue::new builds it, level by level: the layout check passes at every
   node and bytes are bytes.  Two shapes are excluded because the JSON form cannot carry them
   (see the json_roundtrip_refuted lemmas): a zero-length vector whose element type is not the empty tuple,
   and a named tuple without fields. *)
Inductive wf : ty -> bvalue -> Prop :=
| wf_scalar st b : length b = nbytes st -> Forall byte b -> wf (TScalar st) (BBytes b)
| wf_array sh st b : check_type (BBytes b) (TArray sh st) = Ok true ->
                     Forall (fun d => 0 <= d) sh -> Forall byte b -> wf (TArray sh st) (BBytes b)
| wf_vector n t vs : check_type (BVec vs) (TVector n t) = Ok true -> (n = 0 -> t = TTuple []) ->
                     Forall (wf t) vs -> wf (TVector n t) (BVec vs)
| wf_tuple ts vs : check_type (BVec vs) (TTuple ts) = Ok true -> Forall2 wf ts vs ->
                   wf (TTuple ts) (BVec vs)
| wf_named fs vs : fs <> [] -> check_type (BVec vs) (TNamed fs) = Ok true ->
                   Forall2 wf (map snd fs) vs -> wf (TNamed fs) (BVec vs).

Lemma check_type_true v t :
  check_type v t = Ok true <-> (exists s, size_in_bits t = Ok s) /\ check_type_raw v t = true.
Proof.
  unfold check_type. destruct (size_in_bits t) as [s| | |]; cbn [bind]; split.
  - intros H. injection H as H. split; eauto.
  - intros [_ ->]. reflexivity.
  - discriminate.
  - intros [[s H] _]. discriminate.
  - discriminate.
  - intros [[s H] _]. discriminate.
  - discriminate.
  - intros [[s H] _]. discriminate.
Qed.

Lemma nbytes_byte_len st : Z.of_nat (nbytes st) = (width st + 7) / 8.
Proof. destruct st; reflexivity. Qed.

Lemma wf_check t v : wf t v -> check_type v t = Ok true.
Proof.
  destruct 1 as [st b Hl Hb| | | |]; auto.
  apply check_type_true. split; [exists (width st); reflexivity|].
  cbn [check_type_raw size_in_bits_raw]. rewrite Hl, nbytes_byte_len. apply Z.eqb_refl.
Qed.

Lemma tv_new_ok t v : check_type v t = Ok true -> tv_new t v = Ok (t, v).
Proof. unfold tv_new. now intros ->. Qed.

(* ------------------------------------------------------------------ scalars *)
Lemma size_scalar st : size_in_bits (TScalar st) = Ok (width st).
Proof. reflexivity. Qed.

Lemma scalar_roundtrip st b : length b = nbytes st -> Forall byte b ->
  exists j b', print_tv (TScalar st) (BBytes b) = Ok j /\
               parse_sdm j = Ok (SValue (TScalar st, BBytes b')) /\
               is_equal_raw (TScalar st) (BBytes b) (BBytes b') = Ok true /\
               check_type_raw (BBytes b') (TScalar st) = true.
Proof.
  intros Hl Hb. destruct (scalar_eqb st Bit) eqn:Est.
  - apply scalar_eqb_eq in Est. subst st. destruct b as [|x0 [|? ?]]; try discriminate.
    set (bit := (x0 / 2 ^ 0) mod 2).
    assert (Hp : print_tv (TScalar Bit) (BBytes [x0]) = Ok (obj_scalar "scalar" Bit (JNum (reader Bit bit))))
      by reflexivity.
    assert (Hbit : bit = 0 \/ bit = 1) by (unfold bit; lia).
    assert (Hm : x0 mod 2 = bit) by (unfold bit; change (2 ^ 0) with 1; rewrite Z.div_1_r; reflexivity).
    clearbody bit. exists (obj_scalar "scalar" Bit (JNum (reader Bit bit))), [bit].
    split; [exact Hp|]. split; [|split].
    + erewrite parse_scalar_obj by (cbn [parse_sdm]; apply num_sdm_ok, reader_range).
      destruct Hbit; subst bit; reflexivity.
    + cbn [is_equal_raw]. rewrite size_scalar. cbn [bind]. apply leaf_equal_agree.
      cbn [agree]. change (width Bit mod 8 =? 0) with false. cbn iota. change (2 ^ (width Bit mod 8)) with 2.
      rewrite Hm. destruct Hbit; subst bit; reflexivity.
    + reflexivity.
  - assert (Hst : st <> Bit) by (intros ->; discriminate).
    destruct (nonbit_leaf st b 1 Hst Hb ltac:(lia)) as (xs & Hx & Hlx & Hw).
    destruct xs as [|x [|? ?]]; try discriminate. cbn [map] in Hw.
    exists (obj_scalar "scalar" st (JNum (reader st x))), b.
    assert (Hne : b <> []) by (pose proof (nbytes_pos st); destruct b; [cbn [length] in Hl; lia|discriminate]).
    split; [|split; [|split]].
    + cbn [print_tv]. unfold to_u128. rewrite Hx. cbn [bind length Nat.eqb negb andb]. reflexivity.
    + erewrite parse_scalar_obj by (cbn [parse_sdm]; apply num_sdm_ok, reader_range).
      unfold from_scalar, from_flattened_array. rewrite Hw. reflexivity.
    + cbn [is_equal_raw]. rewrite size_scalar. cbn [bind]. apply leaf_equal_agree, agree_refl, Hne.
    + cbn [check_type_raw size_in_bits_raw]. rewrite Hl, nbytes_byte_len. apply Z.eqb_refl.
Qed.

(* ------------------------------------------------------------------ arrays *)
Definition chk_mul (acc : result Z) (x : Z) : result Z := let* a := acc in chk64 (a * x).
Lemma fold_chk_err sh r : (forall a, r <> Ok a) -> forall a, fold_left chk_mul sh r <> Ok a.
Proof.
  revert r. induction sh as [|x sh IH]; intros r Hr; [exact Hr|]. cbn [fold_left]. apply IH.
  destruct r; cbn; try discriminate. exfalso. eapply Hr. reflexivity.
Qed.
Lemma fold_chk_ok sh : forall a pr, fold_left chk_mul sh (Ok a) = Ok pr -> pr = a * prod_list sh.
Proof.
  induction sh as [|x sh IH]; intros a pr H; cbn [fold_left prod_list fold_right] in *.
  - injection H as <-. lia.
  - fold (prod_list sh). unfold chk_mul at 2 in H. cbn [bind] in H. unfold chk64 in H.
    destruct (a * x <=? u64_max).
    + apply IH in H. lia.
    + exfalso. eapply fold_chk_err; [|exact H]. discriminate.
Qed.
Lemma size_array sh st s : size_in_bits_raw (TArray sh st) = Ok s -> s = width st * prod_list sh.
Proof.
  cbn [size_in_bits_raw]. fold chk_mul.
  destruct (fold_left chk_mul sh (Ok 1)) as [pr| | |] eqn:E; cbn [bind]; try discriminate.
  apply fold_chk_ok in E. unfold chk64. destruct (width st * pr <=? u64_max); [|discriminate].
  intros H. injection H as <-. lia.
Qed.

Lemma valid_shape_pos sh : is_valid_shape sh = true -> Forall (fun d => 0 <= d) sh ->
  sh <> [] /\ Forall (fun d => 0 < d) sh.
Proof.
  unfold is_valid_shape. intros H Hn. apply andb_true_iff in H as [H _]. apply andb_true_iff in H as [H1 H2].
  split; [destruct sh; [discriminate|discriminate]|].
  rewrite forallb_forall in H2. rewrite Forall_forall in *. intros d Hd.
  specialize (H2 d Hd). specialize (Hn d Hd). cbn beta in *. lia.
Qed.

Lemma bits_fix xs : Forall is_bit xs -> map (fun x => wrap (reader Bit x)) xs = xs.
Proof.
  induction 1 as [|x xs Hx _ IH]; [reflexivity|]. cbn [map]. rewrite IH. f_equal.
  destruct Hx; subst x; reflexivity.
Qed.

Lemma array_roundtrip sh st b :
  check_type (BBytes b) (TArray sh st) = Ok true -> Forall (fun d => 0 <= d) sh -> Forall byte b ->
  exists j b', print_tv (TArray sh st) (BBytes b) = Ok j /\
               parse_sdm j = Ok (SValue (TArray sh st, BBytes b')) /\
               is_equal_raw (TArray sh st) (BBytes b) (BBytes b') = Ok true /\
               check_type_raw (BBytes b') (TArray sh st) = true.
Proof.
  intros Hct Hnn Hb. pose proof Hct as Hct0. apply check_type_true in Hct as [[s Hs] Hraw].
  assert (Hv : is_valid_shape sh = true /\ size_in_bits_raw (TArray sh st) = Ok s).
  { unfold size_in_bits in Hs. cbn [ty_valid] in Hs. destruct (is_valid_shape sh); [auto|discriminate]. }
  destruct Hv as [Hvs Hsr]. destruct (valid_shape_pos sh Hvs Hnn) as [Hne Hpos].
  pose proof (size_array sh st s Hsr) as Hs'. pose proof (prod_pos sh Hpos) as HN.
  set (N := prod_list sh) in *.
  assert (Hlen : Z.of_nat (length b) = (s + 7) / 8).
  { cbn [check_type_raw] in Hraw. rewrite Hsr in Hraw. lia. }
  (* the elements read, and the bytes written back from the parsed numbers *)
  assert (Hleaf : exists xs b', to_flattened_array_u128 (BBytes b) (TArray sh st) = Ok xs /\
             length xs = Z.to_nat N /\
             vec_to_bytes st (map (fun x => wrap (reader st x)) xs) = Ok b' /\ agree (s mod 8) b b').
  { destruct (scalar_eqb st Bit) eqn:Est.
    - apply scalar_eqb_eq in Est. subst st. cbn [width] in Hs'.
      set (ys := flat_map unpack_byte b).
      assert (Hys : length ys = (length b * 8)%nat) by (apply flat_map_length_const, unpack_length).
      assert (Hbits : Forall is_bit (firstn (Z.to_nat N) ys)).
      { assert (Forall is_bit ys) by (apply Forall_flat_map, Forall_forall; intros; apply unpack_bits).
        rewrite <- (firstn_skipn (Z.to_nat N) ys) in H. apply Forall_app in H. tauto. }
      assert (Hlx : length (firstn (Z.to_nat N) ys) = Z.to_nat N) by (rewrite firstn_length; lia).
      destruct (bits_repack b Hb (Z.to_nat N) (Z.to_nat N)) as (b' & Hm & _ & Hag).
      { destruct b; [cbn [length] in Hlen; lia|discriminate]. }
      { lia. } { lia. }
      exists (firstn (Z.to_nat N) ys), b'. split; [|split; [exact Hlx|split]].
      + unfold to_flattened_array_u128. rewrite Hct0. reflexivity.
      + rewrite bits_fix by exact Hbits. cbn [vec_to_bytes]. rewrite Hlx. exact Hm.
      + replace (s mod 8) with (Z.of_nat (Z.to_nat N) mod 8) by (rewrite Z2Nat.id by lia; f_equal; lia).
        exact Hag.
    - assert (Hst : st <> Bit) by (intros ->; discriminate).
      assert (Hl : length b = (Z.to_nat N * nbytes st)%nat).
      { pose proof (bl8 st Hst). pose proof (byte_len_nbytes st). nia. }
      destruct (nonbit_leaf st b (Z.to_nat N) Hst Hb Hl) as (xs & Hx & Hlx & Hw).
      exists xs, b. split; [|split; [exact Hlx|split; [exact Hw|]]].
      + unfold to_flattened_array_u128. rewrite Hct0. cbn [is_array negb bind scalar_of].
        rewrite Hx. cbn [bind]. destruct st; try reflexivity. congruence.
      + apply agree_refl. pose proof (nbytes_pos st). destruct b; [cbn [length] in Hl; nia|discriminate]. }
  destruct Hleaf as (xs & b' & Hread & Hlx & Hwrite & Hag).
  destruct (shaped_roundtrip sh (map (reader st) xs) Hne Hpos) as (j & Hj1 & Hj2).
  { rewrite map_length, Hlx. fold N. lia. }
  { apply Forall_map, Forall_forall. intros; apply reader_range. }
  exists (obj_scalar "array" st j), b'. split; [|split; [|split]].
  - cbn [print_tv]. rewrite Hread. cbn [bind]. rewrite Hj1. reflexivity.
  - erewrite parse_array_obj by exact Hj2. unfold from_shaped.
    rewrite !map_length, Hlx. fold N. replace (N =? Z.of_nat (Z.to_nat N)) with true by lia.
    cbn [negb]. unfold from_flattened_array. rewrite map_map, Hwrite. reflexivity.
  - cbn [is_equal_raw]. rewrite Hs. cbn [bind]. apply leaf_equal_agree, Hag.
  - cbn [check_type_raw] in *. rewrite Hsr in *. rewrite <- (agree_length _ _ _ Hag). exact Hraw.
Qed.

(* ------------------------------------------------------------------ containers *)
Lemma ty_eqb_refl t : ty_eqb t t = true.
Proof.
  induction t as [s|sh s|n t IH|ts IH|fs IH] using ty_ind'; cbn [ty_eqb].
  - destruct s; reflexivity.
  - rewrite (list_eqb_refl Z.eqb Z.eqb_refl). destruct s; reflexivity.
  - now rewrite Z.eqb_refl, IH.
  - induction IH as [|t ts Ht _ IHts]; [reflexivity|]. now rewrite Ht, IHts.
  - induction IH as [|f fs Hf _ IHfs]; [reflexivity|]. now rewrite String.eqb_refl, Hf, IHfs.
Qed.

Lemma visit_seq_values tvs : visit_seq (map SValue tvs) = Ok (SVector tvs).
Proof.
  destruct tvs as [|tv tvs]; [reflexivity|]. cbn [map visit_seq sdm_tag].
  assert (Hall : forall l, forallb (fun d => sdm_tag d =? 2) (map SValue l) = true).
  { induction l as [|x l IHl]; [reflexivity|]. cbn [map forallb sdm_tag].
    change (2 =? 2) with true. cbn [andb]. exact IHl. }
  change (SValue tv :: map SValue tvs) with (map SValue (tv :: tvs)). rewrite Hall. cbn [negb].
  f_equal. f_equal. generalize (tv :: tvs). induction l as [|x l IHl]; [reflexivity|].
  cbn [map flat_map app]. now rewrite IHl.
Qed.

Lemma visit_seq_named (nts : list (string * tval)) : nts <> [] ->
  visit_seq (map (fun p => SNamed [p]) nts) = Ok (SNamed nts).
Proof.
  intros Hne. destruct nts as [|p nts]; [congruence|]. cbn [map visit_seq sdm_tag].
  assert (Hall : forall l : list (string * tval),
             forallb (fun d => sdm_tag d =? 3) (map (fun p => SNamed [p]) l) = true).
  { induction l as [|x l IHl]; [reflexivity|]. cbn [map forallb sdm_tag].
    change (3 =? 3) with true. cbn [andb]. exact IHl. }
  change (SNamed [p] :: map (fun p0 => SNamed [p0]) nts) with (map (fun p0 : string * tval => SNamed [p0]) (p :: nts)).
  rewrite Hall. cbn [negb]. f_equal. f_equal. generalize (p :: nts).
  induction l as [|x l IHl]; [reflexivity|]. cbn [map flat_map app]. now rewrite IHl.
Qed.

(* what the induction carries for one (type, value) *)
Definition rt (t : ty) (v : bvalue) : Prop :=
  exists j v', print_tv t v = Ok j /\ parse_sdm j = Ok (SValue (t, v')) /\
               is_equal_raw t v v' = Ok true /\ check_type_raw v' t = true.

Definition elem_ok (t : ty) (c c' : bvalue) : Prop :=
  is_equal_raw t c c' = Ok true /\ check_type_raw c' t = true.

Lemma vector_from_vector_same t vs' : (vs' = [] -> t = TTuple []) ->
  vector_from_vector (map (fun c => (t, c)) vs') = Ok (TVector (Z.of_nat (length vs')) t, BVec vs').
Proof.
  intros H0. unfold vector_from_vector. destruct vs' as [|c vs']; [rewrite H0 by reflexivity; reflexivity|].
  cbn [map fst]. assert (Hall : forall l, forallb (fun tv : tval => ty_eqb (fst tv) t) (map (fun c => (t, c)) l) = true).
  { induction l as [|x l IHl]; [reflexivity|]. cbn [map forallb fst]. now rewrite ty_eqb_refl, IHl. }
  change ((t, c) :: map (fun c0 => (t, c0)) vs') with (map (fun c0 => (t, c0)) (c :: vs')).
  rewrite Hall. rewrite !map_map. cbn [snd]. rewrite map_id, map_length. reflexivity.
Qed.

Lemma check_elems_size t c : check_type c t = Ok true -> exists s, size_in_bits t = Ok s.
Proof. intros H. apply check_type_true in H. tauto. Qed.

Lemma vector_case n t : (forall v, wf t v -> rt t v) -> forall v, wf (TVector n t) v -> rt (TVector n t) v.
Proof.
  intros IH v Hwf. inversion Hwf as [| |n' t' vs Hct Hn0 Hall| |]; subst.
  pose proof Hct as Hct0. apply check_type_true in Hct as [[s Hs] Hraw].
  cbn [check_type_raw] in Hraw. apply andb_true_iff in Hraw as [Hlen _]. apply Z.eqb_eq in Hlen.
  assert (Hck : Forall (fun c => check_type c t = Ok true) vs).
  { rewrite Forall_forall in *. intros c Hc. apply wf_check, Hall, Hc. }
  assert (Hel : Forall (fun c => exists j d, print_tv t c = Ok j /\ parse_sdm j = Ok d /\
                                   exists c', d = SValue (t, c') /\ elem_ok t c c') vs).
  { rewrite Forall_forall in *. intros c Hc. destruct (IH c (Hall c Hc)) as (j & c' & H1 & H2 & H3 & H4).
    exists j, (SValue (t, c')). repeat split; auto. exists c'. repeat split; auto. }
  destruct (mapM_chain _ _ _ vs Hel) as (js & ds & Hjs & Hds & HR).
  assert (Hvs' : exists vs', ds = map SValue (map (fun c' => (t, c')) vs') /\ Forall2 (elem_ok t) vs vs').
  { clear - HR. induction HR as [|c d vs ds (c' & -> & Hok) _ (vs' & -> & HF)].
    - exists []. split; [reflexivity|constructor].
    - exists (c' :: vs'). split; [reflexivity|constructor; auto]. }
  destruct Hvs' as (vs' & -> & HF). pose proof (Forall2_length' _ _ _ HF) as Hl'.
  exists (obj_container "vector" js), (BVec vs'). split; [|split; [|split]].
  - cbn [print_tv to_vector]. replace (n =? Z.of_nat (length vs)) with true by lia. cbn [negb].
    assert (E : mapM (fun c : bvalue => let* tv := tv_new t c in Ok (@None string, tv)) vs
                = Ok (map (fun c => (@None string, (t, c))) vs)).
    { apply mapM_all_ok. rewrite Forall_forall in *. intros c Hc. now rewrite (tv_new_ok _ _ (Hck c Hc)). }
    rewrite E.
    cbn [bind]. rewrite Hjs. reflexivity.
  - erewrite parse_vector_obj by (rewrite parse_arr, Hds; cbn [bind]; apply visit_seq_values).
    rewrite vector_from_vector_same.
    + cbn [rmap]. repeat f_equal. lia.
    + intros ->. apply Hn0. destruct vs; [cbn [length] in Hlen; lia|inversion HF].
  - cbn [is_equal_raw]. rewrite Hs. cbn [bind].
    assert (G : forall i, i + Z.of_nat (length vs) = n -> eq_vector (is_equal_raw t) t n i vs vs' = Ok true).
    { clear - HF Hck. induction HF as [|c c' vs vs' [He Hc'] _ IHF]; intros i Hi.
      - cbn [eq_vector length] in *. replace (n <=? i) with true by lia. reflexivity.
      - apply Forall_cons_iff in Hck as [Hc Hck]. cbn [eq_vector length] in *.
        replace (n <=? i) with false by lia.
        rewrite (tv_new_ok _ _ Hc). cbn [bind].
        destruct (check_elems_size _ _ Hc) as [s Hs].
        rewrite (tv_new_ok t c') by (apply check_type_true; eauto). cbn [bind].
        rewrite He. cbn [bind]. apply IHF; auto. lia. }
    apply G. lia.
  - cbn [check_type_raw]. rewrite <- Hl'. replace (Z.of_nat (length vs) =? n) with true by lia. cbn [andb].
    apply forallb_forall. intros c' Hin. clear - HF Hin.
    induction HF as [|c c0 vs vs' [_ Hc] _ IHF]; [contradiction|]. destruct Hin as [<-|Hin]; auto.
Qed.

(* element-wise facts shared by tuples and named tuples *)
Inductive els_ok : list ty -> list bvalue -> list bvalue -> Prop :=
| els_nil : els_ok [] [] []
| els_cons t c c' ts vs vs' : elem_ok t c c' -> check_type c t = Ok true -> els_ok ts vs vs' ->
                              els_ok (t :: ts) (c :: vs) (c' :: vs').

Lemma els_len ts vs vs' : els_ok ts vs vs' -> length vs = length ts /\ length vs' = length ts.
Proof. induction 1; cbn [length]; lia. Qed.

Lemma els_layout ts vs vs' : els_ok ts vs vs' -> Forall2 layout vs' ts.
Proof.
  induction 1 as [|t c c' ts vs vs' [_ Hc] _ _ IH]; constructor; auto.
  now apply check_type_iff_layout.
Qed.

Lemma els_eq_tuple ts vs vs' : els_ok ts vs vs' -> eq_tuple is_equal_raw ts vs vs' = Ok true.
Proof.
  induction 1 as [|t c c' ts vs vs' [He Hc'] Hc _ IH]; [reflexivity|]. cbn [eq_tuple].
  rewrite (tv_new_ok _ _ Hc). cbn [bind]. destruct (check_elems_size _ _ Hc) as [s Hs].
  rewrite (tv_new_ok t c') by (apply check_type_true; eauto). cbn [bind]. rewrite He. cbn [bind]. exact IH.
Qed.

Lemma els_eq_named fs vs vs' : els_ok (map snd fs) vs vs' -> eq_named is_equal_raw fs vs vs' = Ok true.
Proof.
  revert vs vs'. induction fs as [|f fs IH]; intros vs vs' H; [reflexivity|].
  cbn [map] in H. inversion H as [|t c c' ts vs0 vs0' [He Hc'] Hc Hr]; subst. cbn [eq_named].
  rewrite (tv_new_ok _ _ Hc). cbn [bind]. destruct (check_elems_size _ _ Hc) as [s Hs].
  rewrite (tv_new_ok (snd f) c') by (apply check_type_true; eauto). cbn [bind]. rewrite He. cbn [bind].
  apply IH, Hr.
Qed.

Lemma to_vector_tuple ts vs vs' : els_ok ts vs vs' -> exists r, to_vector (TTuple ts) (BVec vs) = Ok r.
Proof.
  intros H. cbn [to_vector]. destruct (els_len _ _ _ H) as [Hl _].
  replace (length ts =? length vs)%nat with true by (symmetry; apply Nat.eqb_eq; lia). cbn [negb].
  induction H as [|t c c' ts vs vs' _ Hc _ IH]; [eexists; reflexivity|].
  cbn [combine mapM fst snd]. rewrite (tv_new_ok _ _ Hc). cbn [bind].
  destruct IH as [r ->]; [cbn [length] in Hl; lia|]. eexists; reflexivity.
Qed.

Lemma to_vector_named fs vs vs' : els_ok (map snd fs) vs vs' -> exists r, to_vector (TNamed fs) (BVec vs) = Ok r.
Proof.
  intros H. cbn [to_vector]. destruct (els_len _ _ _ H) as [Hl _]. rewrite map_length in Hl.
  replace (length fs =? length vs)%nat with true by (symmetry; apply Nat.eqb_eq; lia). cbn [negb].
  clear Hl. revert vs vs' H. induction fs as [|f fs IH]; intros vs vs' H.
  - inversion H; subst. eexists; reflexivity.
  - cbn [map] in H. inversion H as [|t c c' ts vs0 vs0' _ Hc Hr]; subst.
    cbn [combine mapM fst snd]. rewrite (tv_new_ok _ _ Hc). cbn [bind].
    destruct (IH _ _ Hr) as [r ->]. eexists; reflexivity.
Qed.

Lemma tuple_els ts : Forall (fun t => forall v, wf t v -> rt t v) ts -> forall vs, Forall2 wf ts vs ->
  exists js vs', print_tuple_els print_tv ts vs = Ok js /\
                 mapM parse_sdm js = Ok (map SValue (combine ts vs')) /\ els_ok ts vs vs'.
Proof.
  induction 1 as [|t ts Ht _ IH]; intros vs HF; inversion HF as [|t0 c ts0 vs0 Hw HF']; subst.
  - exists [], []. repeat split. constructor.
  - destruct (Ht c Hw) as (j & c' & H1 & H2 & H3 & H4). destruct (IH _ HF') as (js & vs' & H5 & H6 & H7).
    exists (j :: js), (c' :: vs'). cbn [print_tuple_els mapM combine map]. rewrite H1, H5, H2, H6.
    repeat split. constructor; auto. split; auto. now apply wf_check.
Qed.

Definition named_list (fs : list (string * ty)) (vs' : list bvalue) : list (string * tval) :=
  map (fun q => (fst (fst q), (snd (fst q), snd q))) (combine fs vs').

Lemma named_els fs : Forall (fun p => forall v, wf (snd p) v -> rt (snd p) v) fs ->
  forall vs, Forall2 wf (map snd fs) vs ->
  exists js vs', print_named_els print_tv fs vs = Ok js /\
                 mapM parse_sdm js = Ok (map (fun p => SNamed [p]) (named_list fs vs')) /\
                 els_ok (map snd fs) vs vs'.
Proof.
  induction 1 as [|f fs Hf _ IH]; intros vs HF; cbn [map] in HF;
    inversion HF as [|t0 c ts0 vs0 Hw HF']; subst.
  - exists [], []. repeat split. constructor.
  - destruct (Hf c Hw) as (j & c' & H1 & H2 & H3 & H4). destruct (IH _ HF') as (js & vs' & H5 & H6 & H7).
    exists (obj_named (fst f) j :: js), (c' :: vs'). unfold named_list in *.
    cbn [print_named_els mapM combine map fst snd]. rewrite H1, H5. cbn [bind].
    rewrite (parse_named_obj _ _ _ H2). cbn [bind]. rewrite H6. repeat split.
    constructor; auto. split; auto. now apply wf_check.
Qed.

Lemma combine_fst {A B} (l : list A) (l' : list B) : length l' = length l -> map fst (combine l l') = l.
Proof. revert l'. induction l; intros [|b l'] H; cbn in *; try lia; [reflexivity|]. f_equal. apply IHl. lia. Qed.
Lemma combine_snd {A B} (l : list A) (l' : list B) : length l' = length l -> map snd (combine l l') = l'.
Proof. revert l'. induction l; intros [|b l'] H; cbn in *; try lia; [reflexivity|]. f_equal. apply IHl. lia. Qed.

Lemma forallb_map_const_true {A B} (g : A -> B) (P : B -> bool) l :
  (forall a, P (g a) = true) -> forallb P (map g l) = true.
Proof. intros H. induction l; cbn [map forallb]; [reflexivity|]. now rewrite H, IHl. Qed.

Lemma tuple_case ts : Forall (fun t => forall v, wf t v -> rt t v) ts ->
  forall v, wf (TTuple ts) v -> rt (TTuple ts) v.
Proof.
  intros IH v Hwf. inversion Hwf as [| | |ts' vs Hct HF|]; subst.
  destruct (tuple_els ts IH vs HF) as (js & vs' & Hp & Hq & Hok).
  destruct (els_len _ _ _ Hok) as [Hl Hl']. destruct (to_vector_tuple _ _ _ Hok) as [r Hr].
  pose proof Hct as Hct0. apply check_type_true in Hct as [[s Hs] _].
  assert (Hraw' : check_type_raw (BVec vs') (TTuple ts) = true).
  { apply check_type_iff_layout. constructor. eapply els_layout; eauto. }
  exists (obj_container "tuple" js), (BVec vs'). split; [|split; [|split]]; auto.
  - cbn [print_tv]. rewrite Hr. cbn [bind]. rewrite Hp. reflexivity.
  - erewrite parse_tuple_obj by (rewrite parse_arr, Hq; cbn [bind]; apply visit_seq_values).
    unfold tuple_from_vector. rewrite forallb_map_const_true by reflexivity. rewrite !map_map. cbn [fst snd].
    unfold tval. rewrite (map_ext (fun x : ty * bvalue => fst x) fst), (map_ext (fun x : ty * bvalue => snd x) snd) by reflexivity.
    rewrite combine_fst, combine_snd by lia.
    rewrite (tv_new_ok (TTuple ts) (BVec vs')) by (apply check_type_true; eauto). reflexivity.
  - cbn [is_equal_raw]. rewrite Hs. cbn [bind]. apply els_eq_tuple, Hok.
Qed.

Lemma named_list_new fs : forall vs vs', els_ok (map snd fs) vs vs' ->
  mapM (fun p : string * tval => let* tv := tv_new (fst (snd p)) (snd (snd p)) in Ok (Some (fst p), tv))
       (named_list fs vs')
  = Ok (map (fun p : string * tval => (Some (fst p), snd p)) (named_list fs vs')).
Proof.
  unfold named_list. induction fs as [|f fs IH]; intros vs vs' H; cbn [map] in H; inversion H as [|t c c' ts vs0 vs0' [_ Hc'] Hc Hr]; subst.
  - reflexivity.
  - cbn [combine map mapM fst snd]. destruct (check_elems_size _ _ Hc) as [s Hs].
    rewrite (tv_new_ok (snd f) c') by (apply check_type_true; eauto). cbn [bind].
    rewrite (IH _ _ Hr). reflexivity.
Qed.

Lemma named_list_back fs : forall vs', length vs' = length fs ->
  map (fun p : option string * tval => (match fst p with Some n => n | None => EmptyString end, fst (snd p)))
      (map (fun p : string * tval => (Some (fst p), snd p)) (named_list fs vs')) = fs /\
  map (fun p : option string * tval => snd (snd p))
      (map (fun p : string * tval => (Some (fst p), snd p)) (named_list fs vs')) = vs'.
Proof.
  unfold named_list. induction fs as [|f fs IH]; intros [|c vs'] Hl; cbn [length] in Hl; try lia.
  - split; reflexivity.
  - destruct (IH vs' ltac:(lia)) as [H1 H2]. cbn [combine map fst snd]. rewrite H1, H2.
    destruct f; split; reflexivity.
Qed.

Lemma tuple_from_named fs vs' : fs <> [] -> length vs' = length fs ->
  tuple_from_vector (map (fun p : string * tval => (Some (fst p), snd p)) (named_list fs vs'))
  = tv_new (TNamed fs) (BVec vs').
Proof.
  intros Hne Hl. unfold tuple_from_vector. destruct (named_list_back fs vs' Hl) as [H1 H2].
  unfold tval in *. rewrite H1, H2. rewrite (forallb_map_const_true _ (fun p => is_some (fst p))) by reflexivity.
  destruct fs as [|f fs]; [congruence|]. destruct vs' as [|c vs']; [discriminate|]. reflexivity.
Qed.

Lemma named_case fs : Forall (fun p => forall v, wf (snd p) v -> rt (snd p) v) fs ->
  forall v, wf (TNamed fs) v -> rt (TNamed fs) v.
Proof.
  intros IH v Hwf. inversion Hwf as [| | | |fs' vs Hne Hct HF]; subst.
  destruct (named_els fs IH vs HF) as (js & vs' & Hp & Hq & Hok).
  destruct (els_len _ _ _ Hok) as [Hl Hl']. rewrite map_length in Hl, Hl'.
  destruct (to_vector_named _ _ _ Hok) as [r Hr].
  pose proof Hct as Hct0. apply check_type_true in Hct as [[s Hs] _].
  assert (Hraw' : check_type_raw (BVec vs') (TNamed fs) = true).
  { apply check_type_iff_layout. constructor. eapply els_layout; eauto. }
  exists (obj_container "named tuple" js), (BVec vs'). split; [|split; [|split]]; auto.
  - cbn [print_tv]. rewrite Hr. cbn [bind]. rewrite Hp. reflexivity.
  - erewrite parse_named_tuple_obj.
    2:{ rewrite parse_arr, Hq. cbn [bind]. apply visit_seq_named. unfold named_list.
        destruct fs as [|f fs]; [congruence|]. destruct vs' as [|c vs']; [discriminate|]. discriminate. }
    pose proof (named_list_new fs vs vs' Hok) as Hnew. pose proof (tuple_from_named fs vs' Hne ltac:(lia)) as Htf.
    unfold tval in *. rewrite Hnew. cbn [bind]. rewrite Htf.
    rewrite (tv_new_ok (TNamed fs) (BVec vs')) by (apply check_type_true; eauto). reflexivity.
  - cbn [is_equal_raw]. rewrite Hs. cbn [bind]. apply els_eq_named, Hok.
Qed.

(* ------------------------------------------------------------------ the round trip *)
Theorem json_roundtrip_sdm t : forall v, wf t v -> rt t v.
Proof.
  induction t as [s|sh s|n t IH|ts IH|fs IH] using ty_ind'; intros v Hwf.
  - inversion Hwf; subst. destruct (scalar_roundtrip s b) as (j & b' & H); auto. exists j, (BBytes b'). exact H.
  - inversion Hwf; subst. destruct (array_roundtrip sh s b) as (j & b' & H); auto. exists j, (BBytes b'). exact H.
  - apply vector_case; auto.
  - apply tuple_case; auto.
  - apply named_case; auto.
Qed.

Theorem json_roundtrip t v : wf t v ->
  exists j v', print_tv t v = Ok j /\ parse_tv j = Ok (t, v') /\ is_equal (t, v) (t, v') = Ok true.
Proof.
  intros Hwf. destruct (json_roundtrip_sdm t v Hwf) as (j & v' & H1 & H2 & H3 & _).
  exists j, v'. split; [exact H1|]. split.
  - unfold parse_tv. rewrite H2. reflexivity.
  - unfold is_equal. cbn [fst snd]. rewrite ty_eqb_refl. exact H3.
Qed.

(* ------------------------------------------------------------------ the two excluded shapes are real *)
(* a zero-length vector of i32 prints as {"kind":"vector","value":[]} and comes back as a vector of
   empty tuples: the types differ, is_equal is false *)
Lemma json_roundtrip_refuted_empty_vector :
  exists t v j tv', check_type v t = Ok true /\ print_tv t v = Ok j /\ parse_tv j = Ok tv' /\
                    is_equal (t, v) tv' = Ok false.
Proof.
  exists (TVector 0 (TScalar I32)), (BVec []), (obj_container "vector" []), (TVector 0 (TTuple []), BVec []).
  split; [|split; [|split]]; vm_compute; reflexivity.
Qed.

(* a named tuple without fields prints as {"kind":"named tuple","value":[]}, which is rejected *)
Lemma json_roundtrip_refuted_empty_named :
  exists t v j, check_type v t = Ok true /\ print_tv t v = Ok j /\ parse_tv j = Err.
Proof.
  exists (TNamed []), (BVec []), (obj_container "named tuple" []).
  split; [|split]; vm_compute; reflexivity.
Qed.

(* ------------------------------------------------------------------ non-vacuity *)
Definition example_ty : ty :=
  TTuple [TScalar I16; TArray [3; 3] Bit;
          TNamed [("a"%string, TVector 2 (TScalar I128)); ("b"%string, TArray [2] U64)]].
Definition example_value : bvalue :=
  BVec [BBytes [0; 128];                       (* i16 minimum *)
        BBytes [255; 255];                     (* nine bits, stray bits set in the second byte *)
        BVec [BVec [BBytes (repeat 255 16);    (* -1 as i128 *)
                    BBytes (repeat 0 15 ++ [128])];  (* i128 minimum *)
              BBytes (repeat 255 8 ++ repeat 0 8)]]. (* 2^64-1, 0 *)

Lemma bytes_forall l : forallb (fun y => (0 <=? y) && (y <? 256)) l = true -> Forall byte l.
Proof.
  intros H. rewrite forallb_forall in H. apply Forall_forall. intros y Hy. specialize (H y Hy). unfold byte. lia.
Qed.

Example example_wf : wf example_ty example_value.
Proof.
  unfold example_ty, example_value.
  apply wf_tuple; [vm_compute; reflexivity|].
  constructor; [|constructor; [|constructor; [|constructor]]].
  - apply wf_scalar; [reflexivity|apply bytes_forall; reflexivity].
  - apply wf_array; [vm_compute; reflexivity| |apply bytes_forall; reflexivity].
    repeat (constructor; [lia|]). constructor.
  - apply wf_named; [discriminate|vm_compute; reflexivity|].
    cbn [map snd]. constructor; [|constructor; [|constructor]].
    + apply wf_vector; [vm_compute; reflexivity|lia|].
      constructor; [|constructor; [|constructor]];
        (apply wf_scalar; [reflexivity|apply bytes_forall; reflexivity]).
    + apply wf_array; [vm_compute; reflexivity| |apply bytes_forall; reflexivity].
      repeat (constructor; [lia|]). constructor.
Qed.

Example example_roundtrip :
  exists j, print_tv example_ty example_value = Ok j /\
            parse_tv j = Ok (example_ty,
              BVec [BBytes [0; 128]; BBytes [255; 1];
                    BVec [BVec [BBytes (repeat 255 16); BBytes (repeat 0 15 ++ [128])];
                          BBytes (repeat 255 8 ++ repeat 0 8)]]).
Proof. eexists. split; [vm_compute; reflexivity|]. vm_compute. reflexivity. Qed.

(* ------------------------------------------------------------------ parsing never panics *)
Definition noexc {A} (r : result A) : Prop :=
  match r with Ok _ | Err => True | Panic | OutOfFuel => False end.

Lemma bind_noexc {A B} (r : result A) (f : A -> result B) :
  noexc r -> (forall a, r = Ok a -> noexc (f a)) -> noexc (bind r f).
Proof. destruct r; cbn; auto. Qed.
Lemma rmap_noexc {A B} (g : A -> B) r : noexc r -> noexc (rmap g r).
Proof. destruct r; cbn; auto. Qed.
Lemma mapM_noexc {A B} (f : A -> result B) l : Forall (fun x => noexc (f x)) l -> noexc (mapM f l).
Proof.
  induction 1 as [|x l Hx _ IH]; cbn [mapM]; [exact I|].
  apply bind_noexc; auto. intros y _. apply bind_noexc; auto. intros ys _. exact I.
Qed.

Lemma fold_noexc {X} (g : result Z -> X -> result Z) l : forall r,
  noexc r -> (forall acc x, noexc acc -> In x l -> noexc (g acc x)) -> noexc (fold_left g l r).
Proof.
  induction l as [|x l IH]; intros r Hr Hg; cbn [fold_left]; auto.
  apply IH; [apply Hg; auto; left; reflexivity|]. intros acc y Ha Hy. apply Hg; auto. right; auto.
Qed.
Lemma chk64_noexc x : noexc (chk64 x).
Proof. unfold chk64. destruct (x <=? u64_max); exact I. Qed.

Lemma size_raw_noexc t : noexc (size_in_bits_raw t).
Proof.
  induction t as [s|sh s|n t IH|ts IH|fs IH] using ty_ind'; cbn [size_in_bits_raw].
  - exact I.
  - apply bind_noexc; [|intros; apply chk64_noexc]. apply fold_noexc; [exact I|].
    intros acc x Ha _. apply bind_noexc; auto. intros; apply chk64_noexc.
  - apply bind_noexc; auto. intros; apply chk64_noexc.
  - apply fold_noexc; [exact I|]. intros acc t Ha Hin. apply bind_noexc; auto. intros a _.
    rewrite Forall_forall in IH. apply bind_noexc; [apply IH, Hin|]. intros; apply chk64_noexc.
  - apply fold_noexc; [exact I|]. intros acc p Ha Hin. apply bind_noexc; auto. intros a _.
    rewrite Forall_forall in IH. apply bind_noexc; [apply IH, Hin|]. intros; apply chk64_noexc.
Qed.
Lemma check_type_noexc v t : noexc (check_type v t).
Proof.
  unfold check_type, size_in_bits. apply bind_noexc; [|intros; exact I].
  destruct (ty_valid t); [apply size_raw_noexc|exact I].
Qed.
Lemma tv_new_noexc t v : noexc (tv_new t v).
Proof. unfold tv_new. pose proof (check_type_noexc v t). destruct (check_type v t) as [[|]| | |]; auto. Qed.

Lemma pack_byte_noexc bits : forall i, noexc (pack_byte i bits).
Proof.
  induction bits as [|b r IH]; intros i; cbn [pack_byte]; [exact I|].
  destruct ((b =? 0) || (b =? 1)); [|exact I]. apply bind_noexc; auto. intros; exact I.
Qed.
Lemma from_flat_noexc st xs : noexc (from_flattened_array st xs).
Proof.
  unfold from_flattened_array. apply rmap_noexc.
  destruct st; cbn [vec_to_bytes]; try exact I. apply mapM_noexc, Forall_forall. intros; apply pack_byte_noexc.
Qed.

Lemma number_string_noexc s : noexc (number_string s).
Proof.
  unfold number_string.
  repeat match goal with
         | |- noexc (match ?x with _ => _ end) => destruct x
         | |- noexc (if ?x then _ else _) => destruct x
         end; exact I.
Qed.
Lemma num_sdm_noexc z : noexc (num_sdm z).
Proof.
  unfold num_sdm.
  repeat match goal with |- noexc (if ?x then _ else _) => destruct x end; exact I.
Qed.
Lemma visit_seq_noexc data : noexc (visit_seq data).
Proof.
  unfold visit_seq. destruct data as [|d0 data]; [exact I|].
  destruct (negb _); [exact I|]. destruct d0; exact I.
Qed.
Lemma tuple_from_vector_noexc v : noexc (tuple_from_vector v).
Proof.
  unfold tuple_from_vector.
  repeat match goal with |- noexc (if ?x then _ else _) => destruct x end;
    try apply tv_new_noexc; exact I.
Qed.
Lemma finish_map_noexc st : noexc (finish_map st).
Proof.
  unfold finish_map. destruct (m_num st).
  { destruct (_ || _); [exact I|apply number_string_noexc]. }
  destruct (m_value st) as [value|]; [|exact I].
  destruct (m_name st).
  { destruct (_ || _); [exact I|]. destruct value; exact I. }
  destruct (m_kind st) as [[| | | |]|]; try exact I.
  - destruct (m_type st); [|exact I]. apply bind_noexc.
    { unfold parse_scalar. repeat match goal with |- noexc (if ?x then _ else _) => destruct x end; exact I. }
    intros sc _. destruct value as [[|x [|? ?]] sh| | |]; try exact I.
    apply rmap_noexc. unfold from_scalar. apply bind_noexc; [apply from_flat_noexc|intros; exact I].
  - destruct (m_type st); [|exact I]. apply bind_noexc.
    { unfold parse_scalar. repeat match goal with |- noexc (if ?x then _ else _) => destruct x end; exact I. }
    intros sc _. destruct value; try exact I. apply rmap_noexc. unfold from_shaped.
    destruct (negb _); [exact I|]. apply bind_noexc; [apply from_flat_noexc|intros; exact I].
  - destruct value; try exact I. apply rmap_noexc. unfold vector_from_vector.
    destruct (forallb _ _); exact I.
  - destruct value; try exact I. apply rmap_noexc, tuple_from_vector_noexc.
  - destruct value; try exact I. apply bind_noexc.
    + apply mapM_noexc, Forall_forall. intros p _. apply bind_noexc; [apply tv_new_noexc|intros; exact I].
    + intros; apply rmap_noexc, tuple_from_vector_noexc.
Qed.

Lemma read_fields_noexc rec fs : Forall (fun f => noexc (rec (snd f))) fs ->
  forall st, noexc (read_fields rec fs st).
Proof.
  induction 1 as [|f fs Hf _ IH]; intros st; cbn [read_fields]; [exact I|].
  assert (Hs : forall j, noexc (as_string j)) by (intros []; exact I).
  assert (Hk : forall s, noexc (parse_kind s)).
  { intros s. unfold parse_kind. repeat match goal with |- noexc (if ?x then _ else _) => destruct x end; exact I. }
  repeat match goal with
         | |- noexc (if ?x then _ else _) => destruct x
         | |- noexc (bind _ _) => apply bind_noexc; [auto|intros]
         end; auto; exact I.
Qed.

Section json_ind'.
  Variable P : json -> Prop.
  Hypothesis Hnull : P JNull.
  Hypothesis Hbool : forall b, P (JBool b).
  Hypothesis Hnum : forall z, P (JNum z).
  Hypothesis Hfloat : P JFloat.
  Hypothesis Hstr : forall s, P (JStr s).
  Hypothesis Harr : forall l, Forall P l -> P (JArr l).
  Hypothesis Hobj : forall fs, Forall (fun f => P (snd f)) fs -> P (JObj fs).
  Fixpoint json_ind' (j : json) : P j :=
    match j with
    | JNull => Hnull | JBool b => Hbool b | JNum z => Hnum z | JFloat => Hfloat | JStr s => Hstr s
    | JArr l => Harr l ((fix go (l : list json) : Forall P l :=
                          match l with [] => Forall_nil _
                                  | x :: xs => Forall_cons _ (json_ind' x) (go xs) end) l)
    | JObj fs => Hobj fs ((fix go (l : list (string * json)) : Forall (fun f => P (snd f)) l :=
                             match l with [] => Forall_nil _
                                     | x :: xs => Forall_cons _ (json_ind' (snd x)) (go xs) end) fs)
    end.
End json_ind'.

Theorem parse_sdm_noexc j : noexc (parse_sdm j).
Proof.
  induction j as [|b|z| |s|l IH|fs IH] using json_ind'; cbn [parse_sdm]; try exact I.
  - apply num_sdm_noexc.
  - apply bind_noexc; [apply mapM_noexc, IH|]. intros; apply visit_seq_noexc.
  - apply bind_noexc; [apply read_fields_noexc, IH|]. intros; apply finish_map_noexc.
Qed.

Theorem json_parse_total j : parse_tv j <> Panic /\ parse_tv j <> OutOfFuel.
Proof.
  pose proof (parse_sdm_noexc j) as H. unfold parse_tv.
  destruct (parse_sdm j) as [[]| | |]; cbn [bind] in *; try contradiction; split; discriminate.
Qed.

(* ------------------------------------------------------------------ link to the byte theorems *)
(* the number JSON shows for an element is the type's own integer: two's complement for signed types *)
Lemma reader_ext128 st x : st <> Bit -> reader st (ext128 st x) = sval st x.
Proof.
  intros Hst. rewrite reader_nonbit by auto. pose proof (width_pos st).
  assert (width st <= 128) by (destruct st; cbn [width]; lia).
  destruct (signed st) eqn:Hs; [apply cast_i_exact|apply cast_u_exact]; auto; lia.
Qed.

Theorem json_prints_value st xs : st <> Bit -> Forall rust_int xs ->
  exists b, vec_to_bytes st xs = Ok b /\
            rmap (map (reader st)) (vec_u128_from_bytes st b) = Ok (map (sval st) xs).
Proof.
  intros Hst Hxs. destruct (enc_dec_u128 st xs Hst Hxs) as (b & Hb & _ & _ & Hr).
  exists b. split; [exact Hb|]. rewrite Hr. cbn [rmap]. f_equal. rewrite map_map.
  apply map_ext. intros x. apply reader_ext128, Hst.
Qed.

(* C09 preservation: PermuteAxes. *)
From Coq Require Import Permutation.
From CC Require Import Base.Prelude Base.Scalar Base.Ty Base.Shape Graph.Value Graph.IR Graph.Eval
  Graph.Typing Proofs.EvalProofs Proofs.TypingBase Proofs.TypingTuple Proofs.TypingArith
  Proofs.TypingBits Proofs.TypingReduce.

Lemma prod_list_perm l l' : Permutation l l' -> prod_list l = prod_list l'.
Proof.
  induction 1; cbn [prod_list fold_right] in *; try lia.
  - change (fold_right Z.mul 1 l) with (prod_list l). change (fold_right Z.mul 1 l') with (prod_list l'). lia.
Qed.

Lemma nodup_z_NoDup l : nodup_z l = true -> NoDup l.
Proof.
  induction l as [|x l IH]; cbn [nodup_z]; intros H; constructor; btrue.
  - intros Hin. assert (E : existsb (Z.eqb x) l = true) by (apply existsb_exists; exists x; split; [auto| lia]).
    congruence.
  - auto.
Qed.

Lemma zrange_in_iff n i : In i (zrange n) <-> 0 <= i < n.
Proof.
  split; [apply zrange_in|]. intros H. unfold zrange. apply in_map_iff. exists (Z.to_nat i).
  split; [lia|]. apply in_seq. lia.
Qed.

Lemma map_nth_seq {A} (d : A) l : map (fun k => nth k l d) (seq 0 (length l)) = l.
Proof.
  induction l as [|a l IH]; cbn [length seq map]; [reflexivity|]. cbn [nth]. f_equal.
  rewrite <- seq_shift, map_map. cbn [nth]. exact IH.
Qed.

Lemma map_nth_zrange (d : Z) l : map (fun x => nth (Z.to_nat x) l d) (zrange (Z.of_nat (length l))) = l.
Proof.
  unfold zrange. rewrite map_map, Nat2Z.id.
  erewrite map_ext; [apply map_nth_seq|]. intros k. cbn. now rewrite Nat2Z.id.
Qed.

Lemma mapM_znth_map (os : list Z) perm rs : mapM (fun x => znth os x) perm = Ok rs ->
  rs = map (fun x => nth (Z.to_nat x) os 0) perm /\ Forall (fun x => 0 <= x < Z.of_nat (length os)) perm.
Proof.
  revert rs; induction perm as [|x perm IH]; intros rs E; cbn [mapM] in E.
  - inversion E. split; [reflexivity| constructor].
  - apply bind_ok in E as (y & Ey & E). apply bind_ok in E as (ys & Eys & E). inversion E; subst.
    destruct (IH _ Eys) as [-> F]. unfold znth in Ey. destruct (x <? 0) eqn:N; [discriminate|].
    assert (Hlt : (Z.to_nat x < length os)%nat).
    { clear - Ey. revert Ey. generalize (Z.to_nat x) as k. induction os as [|a os IH]; intros k E; cbn in *;
        destruct k; try discriminate; [lia|]. apply IH in E. lia. }
    rewrite (nth_res_ok os (Z.to_nat x) 0 Hlt) in Ey. inversion Ey; subst.
    split; [reflexivity|]. constructor; [lia| exact F].
Qed.

Lemma preserves_permute_axes perm : preserves (OPermuteAxes perm).
Proof.
  intros ts t vs Hu H HF. inv_infer H. apply zlen_eq in Harity. cbn [op_u64] in Hu.
  destruct (one_dep _ _ Harity HF) as (v & t0 & -> & -> & Hv & Hok).
  cbn [nth] in H. cbn [eval_node nth nth_res bind].
  destruct t0 as [|os st0| | |]; try discriminate. cbn [is_arr negb shape_of st_of] in *.
  destruct (nodup_z perm) eqn:ND; cbn [negb] in H; [|discriminate].
  destruct (forallb (fun x => x <? zlen os) perm) eqn:Rg; cbn [negb] in H; [|discriminate].
  destruct (zlen perm =? zlen os) eqn:Lp; cbn [negb] in H; [|discriminate]. unfold zlen in *.
  apply bind_ok in H as (rs & Ers & H). apply register_ok in H as [-> _].
  destruct (mapM_znth_map _ _ _ Ers) as [Drs Fperm].
  destruct v as [es|]; [|discriminate]. apply has_type_array in Hv as [Le Fe].
  destruct (ty_ok_array _ _ Hok) as [Vos _].
  assert (Pp : Permutation perm (zrange (Z.of_nat (length os)))).
  { apply NoDup_Permutation_bis.
    - now apply nodup_z_NoDup.
    - rewrite zrange_length. lia.
    - intros x Hx. rewrite Forall_forall in Fperm. apply zrange_in_iff. auto. }
  assert (Prs : Permutation rs os).
  { rewrite Drs. apply Permutation_trans with (map (fun x => nth (Z.to_nat x) os 0) (zrange (Z.of_nat (length os)))).
    - now apply Permutation_map.
    - rewrite map_nth_zrange. apply Permutation_refl. }
  assert (Vrs : valid_shape rs).
  { apply Forall_forall. intros d Hd. unfold valid_shape in Vos. rewrite Forall_forall in Vos.
    apply Vos. eapply Permutation_in; eauto. }
  pose proof (prod_list_perm _ _ Prs) as Eprod. pose proof (prod_list_pos _ Vos) as Pos.
  assert (Lrs : length rs = length perm) by (rewrite Drs; apply map_length).
  cbn [arr_of bind shape_of]. unfold eval_permute_axes.
  match goal with |- context [fold_left ?ff ?ll (Ok ?aa)] =>
    destruct (fold_res_inv ff (fun r => length r = length es /\
                                       Forall (fun e => 0 <= e < modulus st0) r) ll) with (a := aa)
      as (r & -> & Lr & Fr)
  end.
  - intros i acc Hi [La Fa]. apply zrange_in in Hi. cbn [bind].
    destruct (number_to_index_inverse os i Vos) as (idx & -> & Hin & _); [lia|]. cbn [bind].
    apply in_shape_length in Hin.
    match goal with |- context [mapM ?g perm] =>
      destruct (mapM_ok g (fun _ => True) perm) as (ni & -> & Lni & _) end.
    { intros ax Hax. rewrite Forall_forall in Fperm. specialize (Fperm ax Hax).
      destruct (znth_total idx ax) as (y & -> & _); [lia|]. eauto. }
    cbn [bind].
    destruct (index_to_number_total rs ni Vrs) as (n & -> & Bn); [lia|]. cbn [bind].
    destruct (znth_total es i) as (x & -> & Ix); [lia|]. cbn [bind].
    destruct (upd_ok (fun e => 0 <= e < modulus st0) acc n x) as (acc' & -> & L' & F'); [lia|].
    eexists; split; [reflexivity|]. split; [lia|]. apply F'; auto.
    rewrite Forall_forall in Fe. auto.
  - split; [apply repeat_length|]. apply Forall_forall. intros e He. apply repeat_spec in He. subst.
    apply zero_in_range.
  - cbn [bind safe_typed]. apply has_type_array. split; [lia| exact Fr].
Qed.

(* C06: the hypotheses of the per-pass theorems are preserved by the constant pass (and, for
   typedness and the operation set, by the meta pass), so that the pipeline theorem can be stated
   with hypotheses on the input graph only. *)
From CC Require Import Base.Prelude Base.Scalar Base.Ty Base.Shape Graph.Value Graph.IR Graph.Eval
  Model.Opt Model.Uniquify Proofs.OptBase Proofs.OptSem Proofs.OptSim Proofs.OptFresh Proofs.OptDangling
  Proofs.OptDup Proofs.OptConst Proofs.OptMeta Proofs.OptMetaSem.

(* an operation that never gets a de-duplication key *)
Definition key_none (o : op) : Prop := forall nd deps, n_op nd = o -> node_key nd deps = Ok None.
(* no tape operation of the graph has a de-duplication key *)
Definition nokey (nodes : list node) : Prop :=
  forall nd, In nd nodes -> from_tape (n_op nd) = true -> key_none (n_op nd).
Definition few_deps (nodes : list node) : Prop :=
  forall nd, In nd nodes -> Z.of_nat (length (n_deps nd)) < 2 ^ 64.
(* neither ArrayToVector nor Zip occurs *)
Definition simple_ops (nodes : list node) : Prop :=
  forall nd, In nd nodes -> simple_meta (n_op nd) = true.
(* the values of a run are well typed *)
Definition vals_typed (nodes : list node) (vals : list value) : Prop :=
  forall i nd v, nth_error nodes i = Some nd -> nth_error vals i = Some v -> has_type v (n_ty nd) = true.
Definition infer_const (infer : op -> list ty -> ty) : Prop := forall t v, infer (OConstant t v) [] = t.

Lemma Forall2_and_r {A B} (R : A -> B -> Prop) (P : B -> Prop) l l' :
  Forall2 R l l' -> Forall P l' -> Forall2 (fun a b => R a b /\ P b) l l'.
Proof. induction 1; intros F; inversion F; subst; constructor; auto. Qed.

(* ------------------------------------------------------------------ provenance of the nodes
   the constant pass emits *)
Definition prov (pre out : list node) (m : list (option Z)) : Prop :=
  forall j nd', nth_error out j = Some nd' ->
    (exists T v i, nd' = cnode T v /\ nth_error m i = Some (Some (Z.of_nat j))) \/
    (exists i nd deps', nth_error pre i = Some nd /\ nth_error m i = Some (Some (Z.of_nat j)) /\
                        mapM (map_get m) (n_deps nd) = Ok deps' /\
                        Forall (fun d' => 0 <= d' < Z.of_nat j) deps' /\
                        nd' = mkNode (n_op nd) deps' [] (n_annots nd) (n_ty nd)).

Lemma prov_ext pre a out m x : prov pre out m -> prov (pre ++ [a]) out (m ++ [x]).
Proof.
  intros H j nd' E. destruct (H j nd' E) as [(T & v & i & E1 & E2)|(i & nd & deps' & E1 & E2 & E3 & E4 & E5)];
    [left; exists T, v, i; auto using nth_error_app1'|].
  right. exists i, nd, deps'. repeat split; auto using nth_error_app1', mapM_map_get_app.
Qed.

Lemma prov_snoc pre out m nd' :
  prov pre out m ->
  ((exists T v i, nd' = cnode T v /\ nth_error m i = Some (Some (Z.of_nat (length out)))) \/
   (exists i nd deps', nth_error pre i = Some nd /\ nth_error m i = Some (Some (Z.of_nat (length out))) /\
                       mapM (map_get m) (n_deps nd) = Ok deps' /\
                       Forall (fun d' => 0 <= d' < Z.of_nat (length out)) deps' /\
                       nd' = mkNode (n_op nd) deps' [] (n_annots nd) (n_ty nd))) ->
  prov pre (out ++ [nd']) m.
Proof.
  intros H Hn j nd0 E. apply nth_error_snoc_inv in E as [(L & E)|(-> & ->)]; auto.
Qed.

Lemma mapped_bounded m n deps deps' : bounded m n -> mapM (map_get m) deps = Ok deps' ->
  Forall (fun d' => 0 <= d' < Z.of_nat n) deps'.
Proof.
  intros B H. apply mapM_Forall2 in H. induction H as [|d d' l l' E _ IH]; constructor; auto.
  apply map_get_ok in E as (_ & E). eapply B; eauto.
Qed.

Section ConstProv.
  Variables (nodes : list node) (o : option Z).
  Hypothesis Hct : const_typed nodes.

  Definition const_prov (pre : list node) (st : const_state * Z) : Prop :=
    const_struct o pre st /\ prov pre (cs_out (fst st)) (cs_map (fst st)).

  Lemma const_prov_inv sN :
    fold_left (opt_const_step o) nodes (Ok (mkCS [] [] [] [] None, 0)) = Ok sN -> const_prov nodes sN.
  Proof.
    apply (fold_res_inv (opt_const_step o) const_prov).
    - apply opt_const_step_strict.
    - split; [apply const_struct_init|]. intros [|j] nd' E; discriminate.
    - intros pre a post [s i] [s' i'] El (Is & Ip) St. split; [eapply const_struct_step; eauto|].
      destruct Is as (I1 & I2 & I3 & _). cbn [fst] in *.
      apply opt_const_step_inv in St as (-> & Ga & s1 & j & Hc & Eout & Ecache & Econsts & Em & Eo).
      rewrite Em, Eout.
      destruct Hc as [T v Hann Hwhy Hconsts Hres | deps' Hnc Hdeps Hwhy Hj Hout Hcache Hconsts].
      + destruct Hres as [(Hf & -> & _)|(Hf & -> & -> & _)].
        * now apply prov_ext.
        * apply prov_snoc; [now apply prov_ext|]. left. exists T, v, (length pre). split; [reflexivity|].
          rewrite <- I2. apply nth_error_snoc.
      + rewrite Hout. subst j. apply prov_snoc; [now apply prov_ext|]. right.
        exists (length pre), a, deps'. rewrite nth_error_snoc, <- I2, nth_error_snoc.
        repeat split; auto using mapM_map_get_app. eapply mapped_bounded; eauto.
  Qed.
End ConstProv.

Lemma in_nth {A} (l : list A) x : In x l -> exists i, nth_error l i = Some x.
Proof. apply In_nth_error. Qed.

Lemma key_none_op nd nd' deps deps' : n_op nd = n_op nd' ->
  node_key nd deps = Ok None -> node_key nd' deps' = Ok None.
Proof. unfold node_key. intros <-. destruct (n_op nd); cbn; intros H; try discriminate; auto. Qed.

(* ------------------------------------------------------------------ the constant pass preserves
   the hypotheses *)
Theorem const_preserves infer nodes o p :
  const_typed nodes -> opt_const nodes o = Ok p ->
  const_typed (po_nodes p) /\
  (few_deps nodes -> few_deps (po_nodes p)) /\
  (simple_ops nodes -> simple_ops (po_nodes p)) /\
  (nokey nodes -> nokey (po_nodes p)) /\
  (infer_const infer -> typed_nodes infer nodes ->
   typed_nodes infer (po_nodes p) /\ (meta_typed nodes -> meta_typed (po_nodes p))).
Proof.
  intros Ct H. rewrite opt_const_unfold in H. apply bind_ok in H as ([s i] & E & H). injection H as <-.
  cbn [po_nodes]. apply (const_prov_inv nodes o Ct) in E as (Is & Ip). cbn [fst] in Ip.
  destruct Is as (_ & I2 & I3 & I4 & _).
  assert (Cases : forall nd', In nd' (cs_out s) ->
            (exists T v, nd' = cnode T v) \/
            (exists nd deps', In nd nodes /\ n_op nd' = n_op nd /\ n_ty nd' = n_ty nd /\
                              n_deps nd' = deps' /\ length deps' = length (n_deps nd))).
  { intros nd' I. apply in_nth in I as (j & Ej).
    destruct (Ip _ _ Ej) as [(T & v & i0 & -> & _)|(i0 & nd & deps' & E1 & E2 & E3 & E4 & ->)]; [left; eauto|right].
    exists nd, deps'. repeat split; auto; [eapply nth_error_In; eauto|].
    apply mapM_Forall2 in E3. symmetry. eapply Forall2_length'; eauto. }
  (* dependency types of a copied node *)
  assert (Dts : forall j i0 nd deps' dts,
            nth_error nodes i0 = Some nd -> mapM (map_get (cs_map s)) (n_deps nd) = Ok deps' ->
            Forall (fun d' => 0 <= d' < Z.of_nat j) deps' ->
            mapM (dep_get (map n_ty nodes) i0) (n_deps nd) = Ok dts ->
            mapM (dep_get (map n_ty (cs_out s)) j) deps' = Ok dts).
  { intros j i0 nd deps' dts E1 E3 E4 D. apply mapM_Forall2 in E3, D. apply mapM_Forall2.
    pose proof (Forall2_and_r _ _ _ _ E3 E4) as E34.
    eapply Forall2_compose; [exact E34|exact D|]. cbn. intros d d' t _ (Hd & Bd) Ht.
    apply map_get_ok in Hd as (D0 & Hd). apply dep_get_ok in Ht as (_ & Ht).
    destruct (I4 _ _ Hd) as (nd0 & nd0' & N1 & N2 & N3 & _).
    rewrite (map_nth_error n_ty _ _ N1) in Ht. injection Ht as <-.
    apply dep_get_ok. split; [lia|]. rewrite (map_nth_error n_ty _ _ N2). congruence. }
  split; [|split; [|split; [|split]]].
  - intros nd' t v I Eo. destruct (Cases _ I) as [(T & v0 & ->)|(nd & deps' & In0 & Eop & Ety & _)].
    + cbn in Eo. now injection Eo as -> _.
    + rewrite Ety. apply (Ct nd t v In0). congruence.
  - intros Hv nd' I. destruct (Cases _ I) as [(T & v0 & ->)|(nd & deps' & In0 & _ & _ & -> & L)].
    + cbn. lia.
    + rewrite L. auto.
  - intros Hs nd' I. destruct (Cases _ I) as [(T & v0 & ->)|(nd & deps' & In0 & Eop & _)].
    + reflexivity.
    + rewrite Eop. auto.
  - intros Hk nd' I Ft. destruct (Cases _ I) as [(T & v0 & ->)|(nd & deps' & In0 & Eop & _)].
    + discriminate.
    + rewrite Eop in *. auto.
  - intros Ic Tn. split.
    + intros j nd' Ej. destruct (Ip _ _ Ej) as [(T & v & ix & -> & _)|(i0 & nd & deps' & E1 & E2 & E3 & E4 & ->)].
      * exists []. cbn. split; [reflexivity|symmetry; apply Ic].
      * destruct (Tn _ _ E1) as (dts & D & Ty). exists dts. cbn [n_deps n_ty n_op]. split; eauto.
    + intros Mt j nd' dts' Ej D'.
      destruct (Ip _ _ Ej) as [(T & v & ix & -> & _)|(i0 & nd & deps' & E1 & E2 & E3 & E4 & ->)]; [exact I|].
      cbn [n_deps n_ty n_op] in *. destruct (Tn _ _ E1) as (dts & D & Ty).
      rewrite (Dts _ _ _ _ _ E1 E3 E4 D) in D'. injection D' as <-. exact (Mt _ _ _ E1 D).
Qed.

(* the values of the folded graph are well typed if those of the original graph are *)
Theorem const_preserves_vals_typed nodes o p vals vals' :
  const_typed nodes -> opt_const nodes o = Ok p ->
  vals_typed nodes vals -> sim nodes (po_nodes p) vals vals' (po_map p) ->
  vals_typed (po_nodes p) vals'.
Proof.
  intros Ct H Vt S. rewrite opt_const_unfold in H. apply bind_ok in H as ([s i] & E & H). injection H as <-.
  cbn [po_nodes po_map] in *. apply (const_prov_inv nodes o Ct) in E as (_ & Ip). cbn [fst] in Ip.
  intros j nd' v' Ej Ev.
  assert (exists i0, nth_error (cs_map s) i0 = Some (Some (Z.of_nat j))) as (i0 & Em).
  { destruct (Ip _ _ Ej) as [(T & v & i0 & _ & Em)|(i0 & nd & deps' & _ & Em & _)]; eauto. }
  destruct (S _ _ Em) as (_ & (v & V1 & V2) & (nd & nd'' & N1 & N2 & N3)).
  rewrite Nat2Z.id in V2, N2. assert (nd'' = nd') by congruence. assert (v = v') by congruence. subst.
  rewrite N3. eapply Vt; eauto.
Qed.

(* ------------------------------------------------------------------ operations of the graph the
   meta pass emits *)
Definition ops_from (pre : list node) (ops : list op) : Prop :=
  Forall (fun o' => (exists nd, In nd pre /\ o' = n_op nd) \/ is_meta_extra o' = true) ops.

Lemma ops_from_mono pre a ops : ops_from pre ops -> ops_from (pre ++ a) ops.
Proof.
  apply Forall_impl. intros o' [(nd & I & E)|E]; [left; exists nd; split; auto; apply in_or_app; auto|right; auto].
Qed.

Lemma meta_ops_inv nodes o sN :
  fold_left (opt_meta_step o) nodes (Ok (mkMS [] [] [] None, 0)) = Ok sN ->
  ops_from nodes (map n_op (ms_out (fst sN))).
Proof.
  apply (fold_res_inv (opt_meta_step o) (fun pre st => ops_from pre (map n_op (ms_out (fst st))))).
  - apply opt_meta_step_strict.
  - constructor.
  - intros pre a post [s i] [s' i'] El I St. cbn [fst] in *.
    apply opt_meta_step_inv in St as (-> & deps & extra & nn & Ed & Fe & Esh & _).
    apply (f_equal (map fst)) in Esh. rewrite !map_map in Esh. cbn [shape fst] in Esh.
    change (map (fun x => n_op x) (ms_out s')) with (map n_op (ms_out s')). 
    replace (map n_op (ms_out s')) with (map n_op (ms_out s ++ mkNode (n_op a) deps [] [] (n_ty a) :: extra)) by (symmetry; exact Esh).
    rewrite map_app. cbn [map n_op]. apply Forall_app. split; [now apply ops_from_mono|].
    constructor.
    + left. exists a. split; auto. apply in_or_app. right. left. auto.
    + apply Forall_forall. intros o' Io. apply in_map_iff in Io as (e & <- & Ie).
      rewrite Forall_forall in Fe. right. auto.
Qed.

Theorem meta_preserves_nokey nodes o p : opt_meta nodes o = Ok p -> nokey nodes -> nokey (po_nodes p).
Proof.
  rewrite opt_meta_unfold. intros H Hk. apply bind_ok in H as ([s i] & E & H). injection H as <-.
  apply meta_ops_inv in E. cbn [fst po_nodes] in *. intros nd' I Ft.
  unfold ops_from in E. rewrite Forall_forall in E.
  destruct (E (n_op nd') (in_map n_op _ _ I)) as [(nd & In0 & Eo)|Ex].
  - rewrite Eo in *. auto.
  - destruct (n_op nd'); discriminate.
Qed.

(* Generated (harness/src/c20.rs, tier gen): interval proofs for the committed table gelu_p10. *)
From Coq Require Import Reals.
From Interval Require Import Tactic.
From CC Require Import Base.Prelude Model.PwlData Proofs.PwlReal.
Open Scope R_scope.

Lemma gelu_p10_seg1 : seg_bound gelu_fn (0) (7/1000) 1024 1048576 (-4352) (-3840) 0 0.
Proof. unfold seg_bound, gelu_fn. intros x Hx; apply Rabs_le; split; apply Rminus_le; interval with (i_bisect x, i_taylor x, i_prec 53). Qed.
Lemma gelu_p10_seg2 : seg_bound gelu_fn (0) (7/1000) 1024 1048576 (-3840) (-3584) 0 0.
Proof. unfold seg_bound, gelu_fn. intros x Hx; apply Rabs_le; split; apply Rminus_le; interval with (i_bisect x, i_taylor x, i_prec 53). Qed.
Lemma gelu_p10_seg3 : seg_bound gelu_fn (0) (7/1000) 1024 1048576 (-3584) (-3328) (-4) (-14336).
Proof. unfold seg_bound, gelu_fn. intros x Hx; apply Rabs_le; split; apply Rminus_le; interval with (i_bisect x, i_taylor x, i_prec 53). Qed.
Lemma gelu_p10_seg4 : seg_bound gelu_fn (0) (7/1000) 1024 1048576 (-3328) (-3072) (-8) (-27648).
Proof. unfold seg_bound, gelu_fn. intros x Hx; apply Rabs_le; split; apply Rminus_le; interval with (i_bisect x, i_taylor x, i_prec 53). Qed.
Lemma gelu_p10_seg5 : seg_bound gelu_fn (0) (7/1000) 1024 1048576 (-3072) (-2816) (-16) (-52224).
Proof. unfold seg_bound, gelu_fn. intros x Hx; apply Rabs_le; split; apply Rminus_le; interval with (i_bisect x, i_taylor x, i_prec 53). Qed.
Lemma gelu_p10_seg6 : seg_bound gelu_fn (0) (7/1000) 1024 1048576 (-2816) (-2560) (-32) (-97280).
Proof. unfold seg_bound, gelu_fn. intros x Hx; apply Rabs_le; split; apply Rminus_le; interval with (i_bisect x, i_taylor x, i_prec 53). Qed.
Lemma gelu_p10_seg7 : seg_bound gelu_fn (0) (7/1000) 1024 1048576 (-2560) (-2304) (-48) (-138240).
Proof. unfold seg_bound, gelu_fn. intros x Hx; apply Rabs_le; split; apply Rminus_le; interval with (i_bisect x, i_taylor x, i_prec 53). Qed.
Lemma gelu_p10_seg8 : seg_bound gelu_fn (0) (7/1000) 1024 1048576 (-2304) (-2048) (-76) (-202752).
Proof. unfold seg_bound, gelu_fn. intros x Hx; apply Rabs_le; split; apply Rminus_le; interval with (i_bisect x, i_taylor x, i_prec 53). Qed.
Lemma gelu_p10_seg9 : seg_bound gelu_fn (0) (7/1000) 1024 1048576 (-2048) (-1792) (-100) (-251904).
Proof. unfold seg_bound, gelu_fn. intros x Hx; apply Rabs_le; split; apply Rminus_le; interval with (i_bisect x, i_taylor x, i_prec 53). Qed.
Lemma gelu_p10_seg10 : seg_bound gelu_fn (0) (7/1000) 1024 1048576 (-1792) (-1536) (-124) (-294912).
Proof. unfold seg_bound, gelu_fn. intros x Hx; apply Rabs_le; split; apply Rminus_le; interval with (i_bisect x, i_taylor x, i_prec 53). Qed.
Lemma gelu_p10_seg11 : seg_bound gelu_fn (0) (7/1000) 1024 1048576 (-1536) (-1280) (-132) (-307200).
Proof. unfold seg_bound, gelu_fn. intros x Hx; apply Rabs_le; split; apply Rminus_le; interval with (i_bisect x, i_taylor x, i_prec 53). Qed.
Lemma gelu_p10_seg12 : seg_bound gelu_fn (0) (7/1000) 1024 1048576 (-1280) (-1024) (-108) (-276480).
Proof. unfold seg_bound, gelu_fn. intros x Hx; apply Rabs_le; split; apply Rminus_le; interval with (i_bisect x, i_taylor x, i_prec 53). Qed.
Lemma gelu_p10_seg13 : seg_bound gelu_fn (0) (7/1000) 1024 1048576 (-1024) (-768) (-48) (-215040).
Proof. unfold seg_bound, gelu_fn. intros x Hx; apply Rabs_le; split; apply Rminus_le; interval with (i_bisect x, i_taylor x, i_prec 53). Qed.
Lemma gelu_p10_seg14 : seg_bound gelu_fn (0) (7/1000) 1024 1048576 (-768) (-512) 68 (-125952).
Proof. unfold seg_bound, gelu_fn. intros x Hx; apply Rabs_le; split; apply Rminus_le; interval with (i_bisect x, i_taylor x, i_prec 53). Qed.
Lemma gelu_p10_seg15 : seg_bound gelu_fn (0) (7/1000) 1024 1048576 (-512) (-256) 220 (-48128).
Proof. unfold seg_bound, gelu_fn. intros x Hx; apply Rabs_le; split; apply Rminus_le; interval with (i_bisect x, i_taylor x, i_prec 53). Qed.
Lemma gelu_p10_seg16 : seg_bound gelu_fn (0) (7/1000) 1024 1048576 (-256) 0 408 0.
Proof. unfold seg_bound, gelu_fn. intros x Hx; apply Rabs_le; split; apply Rminus_le; interval with (i_bisect x, i_taylor x, i_prec 53). Qed.
Lemma gelu_p10_seg17 : seg_bound gelu_fn (0) (7/1000) 1024 1048576 0 256 612 0.
Proof. unfold seg_bound, gelu_fn. intros x Hx; apply Rabs_le; split; apply Rminus_le; interval with (i_bisect x, i_taylor x, i_prec 53). Qed.
Lemma gelu_p10_seg18 : seg_bound gelu_fn (0) (7/1000) 1024 1048576 256 512 804 (-49152).
Proof. unfold seg_bound, gelu_fn. intros x Hx; apply Rabs_le; split; apply Rminus_le; interval with (i_bisect x, i_taylor x, i_prec 53). Qed.
Lemma gelu_p10_seg19 : seg_bound gelu_fn (0) (7/1000) 1024 1048576 512 768 956 (-126976).
Proof. unfold seg_bound, gelu_fn. intros x Hx; apply Rabs_le; split; apply Rminus_le; interval with (i_bisect x, i_taylor x, i_prec 53). Qed.
Lemma gelu_p10_seg20 : seg_bound gelu_fn (0) (7/1000) 1024 1048576 768 1024 1072 (-216064).
Proof. unfold seg_bound, gelu_fn. intros x Hx; apply Rabs_le; split; apply Rminus_le; interval with (i_bisect x, i_taylor x, i_prec 53). Qed.
Lemma gelu_p10_seg21 : seg_bound gelu_fn (0) (7/1000) 1024 1048576 1024 1280 1132 (-277504).
Proof. unfold seg_bound, gelu_fn. intros x Hx; apply Rabs_le; split; apply Rminus_le; interval with (i_bisect x, i_taylor x, i_prec 53). Qed.
Lemma gelu_p10_seg22 : seg_bound gelu_fn (0) (7/1000) 1024 1048576 1280 1536 1156 (-308224).
Proof. unfold seg_bound, gelu_fn. intros x Hx; apply Rabs_le; split; apply Rminus_le; interval with (i_bisect x, i_taylor x, i_prec 53). Qed.
Lemma gelu_p10_seg23 : seg_bound gelu_fn (0) (7/1000) 1024 1048576 1536 1792 1148 (-295936).
Proof. unfold seg_bound, gelu_fn. intros x Hx; apply Rabs_le; split; apply Rminus_le; interval with (i_bisect x, i_taylor x, i_prec 53). Qed.
Lemma gelu_p10_seg24 : seg_bound gelu_fn (0) (7/1000) 1024 1048576 1792 2048 1124 (-252928).
Proof. unfold seg_bound, gelu_fn. intros x Hx; apply Rabs_le; split; apply Rminus_le; interval with (i_bisect x, i_taylor x, i_prec 53). Qed.
Lemma gelu_p10_seg25 : seg_bound gelu_fn (0) (7/1000) 1024 1048576 2048 2304 1100 (-203776).
Proof. unfold seg_bound, gelu_fn. intros x Hx; apply Rabs_le; split; apply Rminus_le; interval with (i_bisect x, i_taylor x, i_prec 53). Qed.
Lemma gelu_p10_seg26 : seg_bound gelu_fn (0) (7/1000) 1024 1048576 2304 2560 1072 (-139264).
Proof. unfold seg_bound, gelu_fn. intros x Hx; apply Rabs_le; split; apply Rminus_le; interval with (i_bisect x, i_taylor x, i_prec 53). Qed.
Lemma gelu_p10_seg27 : seg_bound gelu_fn (0) (7/1000) 1024 1048576 2560 2816 1056 (-98304).
Proof. unfold seg_bound, gelu_fn. intros x Hx; apply Rabs_le; split; apply Rminus_le; interval with (i_bisect x, i_taylor x, i_prec 53). Qed.
Lemma gelu_p10_seg28 : seg_bound gelu_fn (0) (7/1000) 1024 1048576 2816 3072 1040 (-53248).
Proof. unfold seg_bound, gelu_fn. intros x Hx; apply Rabs_le; split; apply Rminus_le; interval with (i_bisect x, i_taylor x, i_prec 53). Qed.
Lemma gelu_p10_seg29 : seg_bound gelu_fn (0) (7/1000) 1024 1048576 3072 3328 1032 (-28672).
Proof. unfold seg_bound, gelu_fn. intros x Hx; apply Rabs_le; split; apply Rminus_le; interval with (i_bisect x, i_taylor x, i_prec 53). Qed.
Lemma gelu_p10_seg30 : seg_bound gelu_fn (0) (7/1000) 1024 1048576 3328 3584 1028 (-15360).
Proof. unfold seg_bound, gelu_fn. intros x Hx; apply Rabs_le; split; apply Rminus_le; interval with (i_bisect x, i_taylor x, i_prec 53). Qed.
Lemma gelu_p10_seg31 : seg_bound gelu_fn (0) (7/1000) 1024 1048576 3584 3840 1024 (-1024).
Proof. unfold seg_bound, gelu_fn. intros x Hx; apply Rabs_le; split; apply Rminus_le; interval with (i_bisect x, i_taylor x, i_prec 53). Qed.
Lemma gelu_p10_seg32 : seg_bound gelu_fn (0) (7/1000) 1024 1048576 3840 4096 1024 (-1024).
Proof. unfold seg_bound, gelu_fn. intros x Hx; apply Rabs_le; split; apply Rminus_le; interval with (i_bisect x, i_taylor x, i_prec 53). Qed.

Lemma gelu_p10_table : table_bound gelu_fn (0) (7/1000) 10 gelu_p10_lb gelu_p10_left gelu_p10_divisor gelu_p10_alphas gelu_p10_betas.
Proof.
  unfold table_bound. intros i a b Hi Ha Hb.
  change (2 ^ gelu_p10_lb)%Z with 32%Z in Hi.
  assert (Hc : (i = 1 \/ i = 2 \/ i = 3 \/ i = 4 \/ i = 5 \/ i = 6 \/ i = 7 \/ i = 8 \/ i = 9 \/ i = 10 \/ i = 11 \/ i = 12 \/ i = 13 \/ i = 14 \/ i = 15 \/ i = 16 \/ i = 17 \/ i = 18 \/ i = 19 \/ i = 20 \/ i = 21 \/ i = 22 \/ i = 23 \/ i = 24 \/ i = 25 \/ i = 26 \/ i = 27 \/ i = 28 \/ i = 29 \/ i = 30 \/ i = 31 \/ i = 32)%Z) by lia.
  destruct Hc as [Hc|Hc]; [subst i; vm_compute in Ha, Hb; injection Ha as <-; injection Hb as <-; exact gelu_p10_seg1|].
  destruct Hc as [Hc|Hc]; [subst i; vm_compute in Ha, Hb; injection Ha as <-; injection Hb as <-; exact gelu_p10_seg2|].
  destruct Hc as [Hc|Hc]; [subst i; vm_compute in Ha, Hb; injection Ha as <-; injection Hb as <-; exact gelu_p10_seg3|].
  destruct Hc as [Hc|Hc]; [subst i; vm_compute in Ha, Hb; injection Ha as <-; injection Hb as <-; exact gelu_p10_seg4|].
  destruct Hc as [Hc|Hc]; [subst i; vm_compute in Ha, Hb; injection Ha as <-; injection Hb as <-; exact gelu_p10_seg5|].
  destruct Hc as [Hc|Hc]; [subst i; vm_compute in Ha, Hb; injection Ha as <-; injection Hb as <-; exact gelu_p10_seg6|].
  destruct Hc as [Hc|Hc]; [subst i; vm_compute in Ha, Hb; injection Ha as <-; injection Hb as <-; exact gelu_p10_seg7|].
  destruct Hc as [Hc|Hc]; [subst i; vm_compute in Ha, Hb; injection Ha as <-; injection Hb as <-; exact gelu_p10_seg8|].
  destruct Hc as [Hc|Hc]; [subst i; vm_compute in Ha, Hb; injection Ha as <-; injection Hb as <-; exact gelu_p10_seg9|].
  destruct Hc as [Hc|Hc]; [subst i; vm_compute in Ha, Hb; injection Ha as <-; injection Hb as <-; exact gelu_p10_seg10|].
  destruct Hc as [Hc|Hc]; [subst i; vm_compute in Ha, Hb; injection Ha as <-; injection Hb as <-; exact gelu_p10_seg11|].
  destruct Hc as [Hc|Hc]; [subst i; vm_compute in Ha, Hb; injection Ha as <-; injection Hb as <-; exact gelu_p10_seg12|].
  destruct Hc as [Hc|Hc]; [subst i; vm_compute in Ha, Hb; injection Ha as <-; injection Hb as <-; exact gelu_p10_seg13|].
  destruct Hc as [Hc|Hc]; [subst i; vm_compute in Ha, Hb; injection Ha as <-; injection Hb as <-; exact gelu_p10_seg14|].
  destruct Hc as [Hc|Hc]; [subst i; vm_compute in Ha, Hb; injection Ha as <-; injection Hb as <-; exact gelu_p10_seg15|].
  destruct Hc as [Hc|Hc]; [subst i; vm_compute in Ha, Hb; injection Ha as <-; injection Hb as <-; exact gelu_p10_seg16|].
  destruct Hc as [Hc|Hc]; [subst i; vm_compute in Ha, Hb; injection Ha as <-; injection Hb as <-; exact gelu_p10_seg17|].
  destruct Hc as [Hc|Hc]; [subst i; vm_compute in Ha, Hb; injection Ha as <-; injection Hb as <-; exact gelu_p10_seg18|].
  destruct Hc as [Hc|Hc]; [subst i; vm_compute in Ha, Hb; injection Ha as <-; injection Hb as <-; exact gelu_p10_seg19|].
  destruct Hc as [Hc|Hc]; [subst i; vm_compute in Ha, Hb; injection Ha as <-; injection Hb as <-; exact gelu_p10_seg20|].
  destruct Hc as [Hc|Hc]; [subst i; vm_compute in Ha, Hb; injection Ha as <-; injection Hb as <-; exact gelu_p10_seg21|].
  destruct Hc as [Hc|Hc]; [subst i; vm_compute in Ha, Hb; injection Ha as <-; injection Hb as <-; exact gelu_p10_seg22|].
  destruct Hc as [Hc|Hc]; [subst i; vm_compute in Ha, Hb; injection Ha as <-; injection Hb as <-; exact gelu_p10_seg23|].
  destruct Hc as [Hc|Hc]; [subst i; vm_compute in Ha, Hb; injection Ha as <-; injection Hb as <-; exact gelu_p10_seg24|].
  destruct Hc as [Hc|Hc]; [subst i; vm_compute in Ha, Hb; injection Ha as <-; injection Hb as <-; exact gelu_p10_seg25|].
  destruct Hc as [Hc|Hc]; [subst i; vm_compute in Ha, Hb; injection Ha as <-; injection Hb as <-; exact gelu_p10_seg26|].
  destruct Hc as [Hc|Hc]; [subst i; vm_compute in Ha, Hb; injection Ha as <-; injection Hb as <-; exact gelu_p10_seg27|].
  destruct Hc as [Hc|Hc]; [subst i; vm_compute in Ha, Hb; injection Ha as <-; injection Hb as <-; exact gelu_p10_seg28|].
  destruct Hc as [Hc|Hc]; [subst i; vm_compute in Ha, Hb; injection Ha as <-; injection Hb as <-; exact gelu_p10_seg29|].
  destruct Hc as [Hc|Hc]; [subst i; vm_compute in Ha, Hb; injection Ha as <-; injection Hb as <-; exact gelu_p10_seg30|].
  destruct Hc as [Hc|Hc]; [subst i; vm_compute in Ha, Hb; injection Ha as <-; injection Hb as <-; exact gelu_p10_seg31|].
  subst i; vm_compute in Ha, Hb; injection Ha as <-; injection Hb as <-; exact gelu_p10_seg32.
Qed.

(* C04: propositional form of Model.Uniquify.fresh_check, its step lemmas for fold invariants,
   composition along join_maps, and the consequence for PRF counters. *)
From CC Require Import Base.Prelude Base.Scalar Base.Ty Base.Shape Graph.Value Graph.IR Graph.Eval
  Model.Opt Model.Uniquify Proofs.OptBase.

(* old node i draws randomness / evaluates a PRF and is mapped to j *)
Definition fresh_at (old : list node) (m : list (option Z)) (i : nat) (j : Z) : Prop :=
  exists nd, nth_error old i = Some nd /\ is_fresh_op (n_op nd) = true /\ nth_error m i = Some (Some j).

Definition fresh_spec (old new : list node) (m : list (option Z)) : Prop :=
  (forall i j, fresh_at old m i j ->
               exists nd nd', nth_error old i = Some nd /\ 0 <= j /\
                              nth_error new (Z.to_nat j) = Some nd' /\ n_op nd' = n_op nd) /\
  (forall i i' j, fresh_at old m i j -> fresh_at old m i' j -> i = i') /\
  (forall j nd', nth_error new j = Some nd' -> is_fresh_op (n_op nd') = true ->
                 exists i, fresh_at old m i (Z.of_nat j)).

Definition imgs (old : list node) (m : list (option Z)) : list Z :=
  flat_map (fun p : node * option Z =>
              match snd p with
              | Some j => if is_fresh_op (n_op (fst p)) then [j] else []
              | None => [] end) (combine old m).

Lemma fresh_at_cons nd old x m i j :
  fresh_at (nd :: old) (x :: m) (S i) j <-> fresh_at old m i j.
Proof. unfold fresh_at; cbn [nth_error]. tauto. Qed.

Lemma In_imgs old : forall m j, In j (imgs old m) <-> exists i, fresh_at old m i j.
Proof.
  induction old as [|nd old IH]; intros m j.
  - cbn. split; [tauto|]. intros ([|i] & nd & E & _); discriminate.
  - destruct m as [|x m].
    + cbn. split; [tauto|]. intros ([|i] & nd0 & _ & _ & E); discriminate.
    + unfold imgs. cbn [combine flat_map fst snd]. rewrite in_app_iff. fold (imgs old m). rewrite IH. split.
      * intros [H|(i & H)].
        -- destruct x as [j0|]; [|destruct H]. destruct (is_fresh_op (n_op nd)) eqn:F; [|destruct H].
           destruct H as [->|[]]. exists O, nd. cbn. auto.
        -- exists (S i). apply (proj2 (fresh_at_cons _ _ _ _ _ _)). exact H.
      * intros ([|i] & H).
        -- left. destruct H as (nd0 & E & F & G). cbn in E, G. injection E as <-. injection G as ->.
           rewrite F. now left.
        -- right. exists i. apply (proj1 (fresh_at_cons _ _ _ _ _ _)) in H. exact H.
Qed.

Lemma existsb_Zeqb_In j l : existsb (Z.eqb j) l = true <-> In j l.
Proof.
  rewrite existsb_exists. split.
  - intros (x & I & E). assert (j = x) by lia. now subst.
  - intros I. exists j. split; auto. lia.
Qed.

Lemma nodup_imgs old : forall m,
  (forall i i' j, fresh_at old m i j -> fresh_at old m i' j -> i = i') -> nodup_zb (imgs old m) = true.
Proof.
  induction old as [|nd old IH]; intros m Inj; [reflexivity|].
  destruct m as [|x m]; [reflexivity|].
  unfold imgs. cbn [combine flat_map fst snd]. fold (imgs old m).
  assert (R : nodup_zb (imgs old m) = true).
  { apply IH. intros i i' j H H'. apply (proj2 (fresh_at_cons nd _ x _ _ _)) in H, H'.
    specialize (Inj _ _ _ H H'). lia. }
  destruct x as [j|]; auto. destruct (is_fresh_op (n_op nd)) eqn:F; auto.
  cbn [app nodup_zb]. rewrite R, andb_true_r. apply negb_true_iff.
  destruct (existsb (Z.eqb j) (imgs old m)) eqn:X; auto.
  apply existsb_Zeqb_In, In_imgs in X as (i & H). apply (proj2 (fresh_at_cons nd _ (Some j) _ _ _)) in H.
  assert (H0 : fresh_at (nd :: old) (Some j :: m) O j) by (exists nd; cbn; auto).
  specialize (Inj _ _ _ H H0). lia.
Qed.

Lemma In_combine_nth {A B} (l : list A) : forall (l' : list B) a b,
  In (a, b) (combine l l') -> exists i, nth_error l i = Some a /\ nth_error l' i = Some b.
Proof.
  induction l as [|x l IH]; intros [|y l'] a b H; cbn in H; try tauto.
  destruct H as [H|H].
  - injection H as <- <-. exists O; auto.
  - apply IH in H as (i & H). exists (S i); auto.
Qed.

Lemma nth_error_zrange n k j : nth_error (zrange n) k = Some j -> j = Z.of_nat k.
Proof.
  unfold zrange. intros H. rewrite nth_error_map in H.
  destruct (nth_error (seq 0 (Z.to_nat n)) k) as [x|] eqn:E; [|discriminate].
  injection H as <-. pose proof (nth_error_Some_lt _ _ _ E) as L. rewrite seq_length in L.
  rewrite (nth_error_nth' _ O) in E by (rewrite seq_length; auto). rewrite seq_nth in E by auto.
  injection E as <-. reflexivity.
Qed.

(* the decision procedure of Model/Uniquify.v accepts whatever satisfies the specification *)
Theorem fresh_spec_check old new m : fresh_spec old new m -> fresh_check old new m = true.
Proof.
  intros (S1 & S2 & S3). unfold fresh_check. fold (imgs old m).
  apply andb_true_iff; split; [apply andb_true_iff; split|].
  - apply forallb_forall. intros [nd x] I. apply In_combine_nth in I as (i & E1 & E2). cbn [fst snd].
    destruct x as [j|]; auto. destruct (is_fresh_op (n_op nd)) eqn:F; auto.
    destruct (S1 i j) as (nd0 & nd' & E & J & En & Eo); [exists nd; auto|].
    assert (Z : znth new j = Ok nd') by (apply znth_ok; auto). rewrite Z.
    assert (nd0 = nd) by congruence. subst nd0. rewrite Eo. apply op_eqb_refl.
  - now apply nodup_imgs.
  - apply forallb_forall. intros [j nd'] I. apply In_combine_nth in I as (k & E1 & E2).
    apply nth_error_zrange in E1. subst j.
    destruct (is_fresh_op (n_op nd')) eqn:F; auto.
    apply existsb_Zeqb_In, In_imgs. eauto.
Qed.

(* ------------------------------------------------------------------ fold steps *)
Lemma fresh_spec_nil : fresh_spec [] [] [].
Proof.
  split; [|split].
  - intros [|i] j (nd & E & _); discriminate.
  - intros [|i] i' j (nd & E & _); discriminate.
  - intros [|j] nd' E; discriminate.
Qed.

Lemma fresh_at_snoc old m nd x i j : length m = length old ->
  fresh_at (old ++ [nd]) (m ++ [x]) i j <->
  fresh_at old m i j \/ (i = length old /\ is_fresh_op (n_op nd) = true /\ x = Some j).
Proof.
  intros L. split.
  - intros (nd0 & E & F & G). apply nth_error_snoc_inv in G as [(Li & G)|(-> & G)].
    + left. exists nd0. rewrite nth_error_app1 in E by lia. auto.
    + right. rewrite L, nth_error_snoc in E. injection E as <-. auto.
  - intros [(nd0 & E & F & G)|(-> & F & ->)].
    + exists nd0. repeat split; auto; now apply nth_error_app1'.
    + exists nd. rewrite nth_error_snoc, <- L, nth_error_snoc. auto.
Qed.

(* a node that is not fresh, or is not mapped; the new list may grow by nodes that are not fresh *)
Lemma fresh_spec_step_other old new m nd x extra : length m = length old ->
  fresh_spec old new m -> (is_fresh_op (n_op nd) = false \/ x = None) ->
  Forall (fun e => is_fresh_op (n_op e) = false) extra ->
  fresh_spec (old ++ [nd]) (new ++ extra) (m ++ [x]).
Proof.
  intros L (S1 & S2 & S3) Hx Hex.
  assert (K : forall i j, fresh_at (old ++ [nd]) (m ++ [x]) i j -> fresh_at old m i j).
  { intros i j H. apply fresh_at_snoc in H as [H|(_ & F & ->)]; auto. destruct Hx; congruence. }
  split; [|split].
  - intros i j H. apply K in H. destruct (S1 _ _ H) as (nd0 & nd' & E1 & J & E2 & E3).
    exists nd0, nd'. repeat split; auto; now apply nth_error_app1'.
  - intros i i' j H H'. apply K in H, H'. eauto.
  - intros j nd' E F. destruct (Nat.lt_ge_cases j (length new)) as [Lj|Lj].
    + rewrite nth_error_app1 in E by auto. destruct (S3 _ _ E F) as (i & H). exists i.
      apply fresh_at_snoc; auto.
    + rewrite nth_error_app2 in E by auto. apply nth_error_In in E.
      rewrite Forall_forall in Hex. apply Hex in E. congruence.
Qed.

(* a node copied to the next free position with its operation unchanged *)
Lemma fresh_spec_step_copy old new m nd nd' : length m = length old ->
  fresh_spec old new m -> n_op nd' = n_op nd ->
  fresh_spec (old ++ [nd]) (new ++ [nd']) (m ++ [Some (Z.of_nat (length new))]).
Proof.
  intros L (S1 & S2 & S3) Eo.
  assert (B : forall i j, fresh_at old m i j -> 0 <= j < Z.of_nat (length new)).
  { intros i j H. destruct (S1 _ _ H) as (_ & nd0 & _ & J & E & _). apply nth_error_Some_lt in E. lia. }
  split; [|split].
  - intros i j H. apply fresh_at_snoc in H as [H|(-> & F & E)]; auto.
    + destruct (S1 _ _ H) as (nd0 & nd0' & E1 & J & E2 & E3).
      exists nd0, nd0'. repeat split; auto; now apply nth_error_app1'.
    + injection E as <-. exists nd, nd'. rewrite nth_error_snoc, Nat2Z.id, nth_error_snoc.
      repeat split; auto. lia.
  - intros i i' j H H'. apply fresh_at_snoc in H as [H|(-> & F & E)]; auto;
      apply fresh_at_snoc in H' as [H'|(-> & F' & E')]; auto.
    + eauto.
    + injection E' as <-. apply B in H. lia.
    + injection E as <-. apply B in H'. lia.
  - intros j nd0 E F. apply nth_error_snoc_inv in E as [(Lj & E)|(-> & ->)].
    + destruct (S3 _ _ E F) as (i & H). exists i. apply fresh_at_snoc; auto.
    + exists (length old). apply fresh_at_snoc; auto. right. repeat split; auto. congruence.
Qed.

Lemma fresh_spec_ops old new new' m : map n_op new = map n_op new' ->
  fresh_spec old new m -> fresh_spec old new' m.
Proof.
  intros E (S1 & S2 & S3).
  assert (K : forall j nd, nth_error new j = Some nd -> exists nd', nth_error new' j = Some nd' /\ n_op nd' = n_op nd).
  { intros j nd H. apply (map_nth_error n_op) in H. rewrite E, nth_error_map in H.
    destruct (nth_error new' j) as [nd'|]; [|discriminate]. injection H as H. eauto. }
  assert (K' : forall j nd, nth_error new' j = Some nd -> exists nd', nth_error new j = Some nd' /\ n_op nd' = n_op nd).
  { intros j nd H. apply (map_nth_error n_op) in H. rewrite <- E, nth_error_map in H.
    destruct (nth_error new j) as [nd'|]; [|discriminate]. injection H as H. eauto. }
  split; [|split]; auto.
  - intros i j H. destruct (S1 _ _ H) as (nd0 & nd' & E1 & J & E2 & E3).
    destruct (K _ _ E2) as (nd'' & E4 & E5). exists nd0, nd''. repeat split; auto. congruence.
  - intros j nd' H F. destruct (K' _ _ H) as (nd'' & E4 & E5). apply (S3 j nd''); auto. congruence.
Qed.

(* ------------------------------------------------------------------ composition *)
Lemma join_maps_nth m1 m2 i k :
  nth_error (join_maps m1 m2) i = Some (Some k) <->
  exists j, nth_error m1 i = Some (Some j) /\ 0 <= j /\ nth_error m2 (Z.to_nat j) = Some (Some k).
Proof.
  unfold join_maps. rewrite nth_error_map. destruct (nth_error m1 i) as [[j|]|]; cbn.
  - destruct (znth m2 j) as [[k'|]| | |] eqn:Z.
    + apply znth_ok in Z as (J & Z). split.
      * intros H; injection H as <-. eauto.
      * intros (j' & H & _ & H'). injection H as <-. congruence.
    + apply znth_ok in Z as (J & Z). split; [discriminate|]. intros (j' & H & _ & H'). injection H as <-. congruence.
    + split; [discriminate|]. intros (j' & H & J & H'). injection H as <-.
      assert (znth m2 j = Ok (Some k)) by (apply znth_ok; auto). congruence.
    + split; [discriminate|]. intros (j' & H & J & H'). injection H as <-.
      assert (znth m2 j = Ok (Some k)) by (apply znth_ok; auto). congruence.
    + split; [discriminate|]. intros (j' & H & J & H'). injection H as <-.
      assert (znth m2 j = Ok (Some k)) by (apply znth_ok; auto). congruence.
  - split; [discriminate|]. intros (j' & H & _). discriminate.
  - split; [discriminate|]. intros (j' & H & _). discriminate.
Qed.

Theorem fresh_spec_compose a b c m1 m2 :
  fresh_spec a b m1 -> fresh_spec b c m2 -> fresh_spec a c (join_maps m1 m2).
Proof.
  intros (A1 & A2 & A3) (B1 & B2 & B3).
  assert (K : forall i k, fresh_at a (join_maps m1 m2) i k ->
                          exists j, fresh_at a m1 i j /\ 0 <= j /\ fresh_at b m2 (Z.to_nat j) k).
  { intros i k (nd & E & F & G). apply join_maps_nth in G as (j & G1 & J & G2).
    exists j. split; [exists nd; auto|]. split; auto.
    destruct (A1 i j) as (nd0 & nd' & E1 & _ & E2 & E3); [exists nd; auto|].
    exists nd'. repeat split; auto. assert (nd0 = nd) by congruence. subst. congruence. }
  split; [|split].
  - intros i k H. pose proof H as (nd & E & F & _). apply K in H as (j & H1 & J & H2).
    destruct (A1 _ _ H1) as (nd0 & nd' & E1 & _ & E2 & E3).
    destruct (B1 _ _ H2) as (nd1 & nd'' & E4 & Kk & E5 & E6).
    exists nd, nd''. repeat split; auto. congruence.
  - intros i i' k H H'. apply K in H as (j & H1 & J & H2). apply K in H' as (j' & H1' & J' & H2').
    assert (Z.to_nat j = Z.to_nat j') by eauto. assert (j = j') by lia. subst j'. eauto.
  - intros k nd'' E F. destruct (B3 _ _ E F) as (jn & nd' & E1 & F1 & G1).
    destruct (A3 _ _ E1 F1) as (i & nd & E2 & F2 & G2).
    exists i, nd. repeat split; auto. apply join_maps_nth. exists (Z.of_nat jn). rewrite Nat2Z.id. split; auto. split; [lia|auto].
Qed.

(* ------------------------------------------------------------------ PRF counters stay distinct *)
Definition ivs_distinct (nodes : list node) : Prop :=
  forall i i' nd nd' iv, nth_error nodes i = Some nd -> nth_error nodes i' = Some nd' ->
                         prf_iv (n_op nd) = Some iv -> prf_iv (n_op nd') = Some iv -> i = i'.

Lemma In_prf_ivs nodes iv :
  In iv (prf_ivs nodes) <-> exists i nd, nth_error nodes i = Some nd /\ prf_iv (n_op nd) = Some iv.
Proof.
  induction nodes as [|x nodes IH]; cbn [prf_ivs].
  - split; [intros []|]. intros ([|i] & nd & E & _); discriminate.
  - split.
    + intros H. destruct (prf_iv (n_op x)) as [iv0|] eqn:P.
      * destruct H as [->|H]; [exists O, x; auto|]. apply IH in H as (i & nd & E & F). exists (S i), nd; auto.
      * apply IH in H as (i & nd & E & F). exists (S i), nd; auto.
    + intros ([|i] & nd & E & F); cbn in E.
      * injection E as <-. rewrite F. now left.
      * assert (In iv (prf_ivs nodes)) by (apply IH; eauto).
        destruct (prf_iv (n_op x)); [right|]; auto.
Qed.

Lemma NoDup_prf_ivs nodes : NoDup (prf_ivs nodes) <-> ivs_distinct nodes.
Proof.
  induction nodes as [|x nodes IH]; cbn [prf_ivs].
  - split; [|constructor]. intros _ [|i] i' nd nd' iv E; discriminate.
  - split.
    + intros H i i' nd nd' iv E E' P P'.
      assert (T : NoDup (prf_ivs nodes)) by (destruct (prf_iv (n_op x)); [now inversion H|auto]).
      apply IH in T.
      destruct i as [|i], i' as [|i']; cbn in E, E'; auto.
      * injection E as <-. rewrite P in H. inversion H as [|? ? Hn _]; subst.
        exfalso. apply Hn, In_prf_ivs. eauto.
      * injection E' as <-. rewrite P' in H. inversion H as [|? ? Hn _]; subst.
        exfalso. apply Hn, In_prf_ivs. eauto.
      * f_equal. eapply T; eauto.
    + intros H.
      assert (T : NoDup (prf_ivs nodes)).
      { apply IH. intros i i' nd nd' iv E E' P P'. specialize (H (S i) (S i') nd nd' iv E E' P P'). lia. }
      destruct (prf_iv (n_op x)) as [iv|] eqn:P; auto. constructor; auto.
      intros I. apply In_prf_ivs in I as (i & nd & E & F).
      specialize (H O (S i) x nd iv eq_refl E P F). discriminate.
Qed.

Lemma prf_iv_fresh o iv : prf_iv o = Some iv -> is_fresh_op o = true.
Proof. destruct o; cbn; intros; try discriminate; reflexivity. Qed.

Theorem fresh_spec_ivs old new m : fresh_spec old new m -> NoDup (prf_ivs old) -> NoDup (prf_ivs new).
Proof.
  intros (S1 & S2 & S3) H. apply NoDup_prf_ivs in H. apply NoDup_prf_ivs.
  intros j j' nd nd' iv E E' P P'.
  destruct (S3 _ _ E (prf_iv_fresh _ _ P)) as (i & Hi).
  destruct (S3 _ _ E' (prf_iv_fresh _ _ P')) as (i' & Hi').
  destruct (S1 _ _ Hi) as (n0 & n0' & A1 & _ & A2 & A3).
  destruct (S1 _ _ Hi') as (n1 & n1' & B1 & _ & B2 & B3).
  rewrite Nat2Z.id in A2, B2.
  assert (n0' = nd) by congruence. assert (n1' = nd') by congruence. subst.
  assert (i = i'). { apply (H i i' n0 n1 iv A1 B1); congruence. } subst i'.
  destruct Hi as (? & _ & _ & G), Hi' as (? & _ & _ & G'). rewrite G in G'. injection G' as G'. lia.
Qed.

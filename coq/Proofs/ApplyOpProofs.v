(* Proofs about Model/Sort.v (C18), part 6: the ApplyPermutation operation on flattened arrays
   is the row-level algebra on valid permutations, and apply / apply-inverse are mutually
   inverse at the level of the operation. *)
From Coq Require Import Permutation FinFun.
From CC Require Import Base.Prelude Base.Scalar Model.Sort Proofs.SortProofs Proofs.PermProofs
  Proofs.SortOpProofs.

Lemma filter_all {A} (f : A -> bool) l : Forall (fun x => f x = true) l -> filter f l = l.
Proof. induction 1 as [|x l Hx _ IH]; simpl; auto. now rewrite Hx, IH. Qed.

Lemma dedupZ_nodup l : NoDup l -> dedupZ l = l.
Proof.
  induction 1 as [|x l Hx _ IH]; simpl; auto.
  replace (existsb (Z.eqb x) l) with false; [now rewrite IH|].
  symmetry. apply Bool.not_true_is_false. intros E. apply existsb_exists in E as (y & Hy & Ey).
  apply Z.eqb_eq in Ey. subst y. auto.
Qed.

Lemma map_to_nat_of_nat p : map Z.to_nat (map Z.of_nat p) = p.
Proof. rewrite map_map. rewrite <- (map_id p) at 2. apply map_ext. apply Nat2Z.id. Qed.

Lemma execute_inverse_permutation_u64_ok n p :
  is_perm n p ->
  execute_inverse_permutation_u64 (map Z.of_nat p) = Ok (map Z.of_nat (inv_perm p)).
Proof.
  intros H. pose proof (is_perm_length n p H) as L. pose proof (is_perm_Forall n p H) as F.
  unfold execute_inverse_permutation_u64. rewrite map_length, L.
  replace (existsb (fun v => Z.of_nat n <=? v) (map Z.of_nat p)) with false.
  - rewrite map_to_nat_of_nat, execute_inverse_permutation_ok by (now rewrite L). reflexivity.
  - symmetry. apply Bool.not_true_is_false. intros E. apply existsb_exists in E as (y & Hy & Ey).
    apply in_map_iff in Hy as (i & <- & Hi). rewrite Forall_forall in F. specialize (F i Hi). lia.
Qed.

Theorem apply_permutation_op_spec inverse (rows : list (list Z)) sh p :
  is_perm (length rows) p ->
  Forall (fun r => Z.of_nat (length r) = prodZ sh) rows ->
  apply_permutation_op inverse (concat rows) (Z.of_nat (length rows) :: sh) (map Z.of_nat p)
  = Ok (concat (apply_perm [] (if inverse then inv_perm p else p) rows)).
Proof.
  intros H Hr. pose proof (is_perm_length _ p H) as L. pose proof (is_perm_Forall _ p H) as F.
  unfold apply_permutation_op.
  rewrite filter_all.
  2:{ rewrite Forall_forall in *. intros z Hz. apply in_map_iff in Hz as (i & <- & Hi).
      specialize (F i Hi). apply Z.ltb_lt. lia. }
  rewrite dedupZ_nodup.
  2:{ apply Injective_map_NoDup; [intros a b; apply Nat2Z.inj|]. eapply is_perm_NoDup; eauto. }
  rewrite map_length, L, Z.eqb_refl. cbn [negb].
  destruct inverse.
  - rewrite (execute_inverse_permutation_u64_ok _ p H). cbn [bind].
    apply gather_rows_ok; auto. apply is_perm_Forall. now apply inv_perm_is_perm.
  - cbn [bind]. apply gather_rows_ok; auto.
Qed.

Lemma apply_perm_rows_size (rows : list (list Z)) k p :
  Forall (fun r => Z.of_nat (length r) = k) rows -> Forall (fun i => (i < length rows)%nat) p ->
  Forall (fun r => Z.of_nat (length r) = k) (apply_perm [] p rows).
Proof.
  intros Hr Hp. rewrite Forall_forall in *. intros r Hin. unfold apply_perm in Hin.
  apply in_map_iff in Hin as (i & <- & Hi). apply Hr, nth_In. auto.
Qed.

(* C18, at the level of the operation: ApplyPermutation(false) then ApplyPermutation(true)
   with the same valid permutation, and the other way round, return the array *)
Theorem apply_permutation_op_inverse_id (rows : list (list Z)) sh p :
  is_perm (length rows) p ->
  Forall (fun r => Z.of_nat (length r) = prodZ sh) rows ->
  let shape := Z.of_nat (length rows) :: sh in
  let perm := map Z.of_nat p in
  (let* y := apply_permutation_op false (concat rows) shape perm in
   apply_permutation_op true y shape perm) = Ok (concat rows) /\
  (let* y := apply_permutation_op true (concat rows) shape perm in
   apply_permutation_op false y shape perm) = Ok (concat rows).
Proof.
  intros H Hr shape perm. unfold shape, perm.
  pose proof (is_perm_length _ p H) as L. pose proof (inv_perm_is_perm _ p H) as Hi.
  pose proof (is_perm_length _ _ Hi) as Li.
  destruct (apply_inverse_id [] (length rows) p rows H eq_refl) as [E1 E2].
  split.
  - rewrite (apply_permutation_op_spec false rows sh p H Hr). cbn [bind].
    set (rows' := apply_perm [] p rows).
    assert (L' : length rows' = length rows) by (unfold rows'; now rewrite apply_perm_length).
    rewrite <- L'. rewrite (apply_permutation_op_spec true rows' sh p).
    + unfold rows'. now rewrite E1.
    + now rewrite L'.
    + apply apply_perm_rows_size; auto. now apply is_perm_Forall.
  - rewrite (apply_permutation_op_spec true rows sh p H Hr). cbn [bind].
    set (rows' := apply_perm [] (inv_perm p) rows).
    assert (L' : length rows' = length rows) by (unfold rows'; now rewrite apply_perm_length).
    rewrite <- L'. rewrite (apply_permutation_op_spec false rows' sh p).
    + unfold rows'. now rewrite E2.
    + now rewrite L'.
    + apply apply_perm_rows_size; auto. now apply is_perm_Forall.
Qed.

(* Proofs about Model/Uniquify.v (C04). *)
From CC Require Import Base.Prelude Base.Scalar Base.Ty Base.Shape Graph.Value Graph.IR Model.Uniquify.

Definition count_prf (nodes : list node) : nat :=
  length (filter (fun nd => is_prf_operation (n_op nd)) nodes).

Fixpoint zseq (start : Z) (n : nat) : list Z :=
  match n with O => [] | S n' => start :: zseq (start + 1) n' end.

(* a node with its PRF counter erased: everything renumbering must not touch *)
Definition strip (nd : node) : node := set_iv nd 0.

Lemma prf_ivs_app a b : prf_ivs (a ++ b) = prf_ivs a ++ prf_ivs b.
Proof.
  induction a as [|x a IH]; cbn [app prf_ivs]; auto.
  destruct (prf_iv (n_op x)); cbn [app]; now rewrite IH.
Qed.

Lemma prf_iv_update o id : is_prf_operation o = true -> prf_iv (update_prf_id o id) = Some id.
Proof. destruct o; cbn; intros; try discriminate; reflexivity. Qed.
Lemma prf_iv_non o : is_prf_operation o = false -> prf_iv o = None.
Proof. destruct o; cbn; intros; try discriminate; reflexivity. Qed.
Lemma update_update o a b : update_prf_id (update_prf_id o a) b = update_prf_id o b.
Proof. destruct o; reflexivity. Qed.
Lemma strip_set_iv nd id : strip (set_iv nd id) = strip nd.
Proof. unfold strip, set_iv. cbn. now rewrite update_update. Qed.

Lemma uniquify_fold nodes : forall out c,
  let r := fold_left uniq_step nodes (out, c) in
  prf_ivs (fst r) = prf_ivs out ++ zseq (c + 1) (count_prf nodes)
  /\ snd r = c + Z.of_nat (count_prf nodes)
  /\ map strip (fst r) = map strip out ++ map strip nodes.
Proof.
  induction nodes as [|nd nodes IH]; intros out c; cbn [fold_left].
  - cbn. rewrite !app_nil_r. repeat split; lia.
  - unfold count_prf in *. cbn [filter uniq_step].
    destruct (is_prf_operation (n_op nd)) eqn:P.
    + specialize (IH (out ++ [set_iv nd (c + 1)]) (c + 1)). cbv zeta in IH.
      destruct IH as (I1 & I2 & I3). cbv zeta. rewrite I1, I2, I3.
      rewrite prf_ivs_app. cbn [prf_ivs set_iv n_op]. rewrite prf_iv_update by auto.
      cbn [length zseq]. rewrite <- app_assoc. cbn [app].
      rewrite map_app. cbn [map]. rewrite strip_set_iv, <- app_assoc. cbn [app].
      repeat split; auto. lia.
    + specialize (IH (out ++ [nd]) c). cbv zeta in IH.
      destruct IH as (I1 & I2 & I3). cbv zeta. rewrite I1, I2, I3.
      rewrite prf_ivs_app. cbn [prf_ivs]. rewrite prf_iv_non by auto.
      rewrite app_nil_r, map_app. cbn [map]. rewrite <- app_assoc. cbn [app].
      repeat split; auto.
Qed.

Lemma zseq_app a : forall s b, zseq s (a + b) = zseq s a ++ zseq (s + Z.of_nat a) b.
Proof.
  induction a as [|a IH]; intros s b; cbn [zseq Nat.add app].
  - f_equal. lia.
  - rewrite IH. do 3 f_equal. lia.
Qed.

Lemma zseq_lower m : forall t x, In x (zseq t m) -> t <= x.
Proof.
  induction m as [|m IHm]; intros t x; cbn [zseq In]; [tauto|].
  intros [<-|H]; [lia|]. apply IHm in H. lia.
Qed.
Lemma zseq_nodup n : forall s, NoDup (zseq s n).
Proof.
  induction n as [|n IH]; intros s; cbn [zseq]; constructor; auto.
  intros H. apply zseq_lower in H. lia.
Qed.

(* the PRF counters of the renumbered node list, read in order, are exactly start+1 .. start+n,
   and every other field of every node is unchanged *)
Theorem uniquify_nodes_ids start nodes :
  prf_ivs (fst (uniquify_nodes start nodes)) = zseq (start + 1) (count_prf nodes)
  /\ snd (uniquify_nodes start nodes) = start + Z.of_nat (count_prf nodes)
  /\ map strip (fst (uniquify_nodes start nodes)) = map strip nodes.
Proof.
  unfold uniquify_nodes. destruct (uniquify_fold nodes [] start) as (H1 & H2 & H3).
  cbv zeta in *. cbn [app prf_ivs map] in *. auto.
Qed.

Theorem uniquify_nodes_nodup start nodes : NoDup (prf_ivs (fst (uniquify_nodes start nodes))).
Proof. destruct (uniquify_nodes_ids start nodes) as (-> & _). apply zseq_nodup. Qed.

(* across the graphs of a context: all counters of all graphs together are 1..n *)
Lemma uniquify_graphs_fold gs : forall out c,
  let r := fold_left (fun (acc : list (list node) * Z) nodes =>
                        let '(out, c) := acc in
                        let '(nodes', c') := uniquify_nodes c nodes in
                        (out ++ [nodes'], c')) gs (out, c) in
  flat_map prf_ivs (fst r) = flat_map prf_ivs out ++ zseq (c + 1) (count_prf (concat gs))
  /\ map (map strip) (fst r) = map (map strip) out ++ map (map strip) gs.
Proof.
  induction gs as [|g gs IH]; intros out c; cbn [fold_left].
  - cbn. rewrite !app_nil_r. auto.
  - destruct (uniquify_nodes c g) as [g' c'] eqn:E.
    pose proof (uniquify_nodes_ids c g) as (U1 & U2 & U3). rewrite E in U1, U2, U3. cbn [fst snd] in *.
    specialize (IH (out ++ [g']) c'). cbv zeta in *. destruct IH as (I1 & I2).
    rewrite I1, I2. rewrite flat_map_app. cbn [flat_map]. rewrite app_nil_r, U1, U2.
    cbn [concat]. unfold count_prf in *. rewrite filter_app, app_length.
    rewrite <- app_assoc. split.
    + f_equal. rewrite zseq_app. do 2 f_equal. lia.
    + rewrite map_app. cbn [map]. rewrite U3, <- app_assoc. reflexivity.
Qed.

Theorem uniquify_graphs_ids gs :
  flat_map prf_ivs (uniquify_graphs gs) = zseq 1 (count_prf (concat gs))
  /\ map (map strip) (uniquify_graphs gs) = map (map strip) gs.
Proof.
  unfold uniquify_graphs. destruct (uniquify_graphs_fold gs [] 0) as (H1 & H2). cbv zeta in *.
  cbn [flat_map app map] in *. auto.
Qed.

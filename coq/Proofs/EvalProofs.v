(* Proofs about Graph/Eval.v (C10): kernels, index arithmetic, per-operation specifications. *)
From Coq Require Import Znumtheory.
From CC Require Import Base.Prelude Base.Scalar Base.Ty Base.Shape Graph.Value Graph.IR Graph.Eval.

Lemma modulus_divides_two128 st : (modulus st | two128).
Proof.
  unfold modulus, two128. exists (2 ^ (128 - width st)).
  rewrite <- Z.pow_add_r by (destruct st; simpl; lia). f_equal. lia.
Qed.

Lemma wrap_then_mod st x : (x mod two128) mod modulus st = x mod modulus st.
Proof.
  symmetry. apply Zmod_div_mod.
  - apply modulus_pos.
  - unfold two128. lia.
  - apply modulus_divides_two128.
Qed.

(* wrapping u128 arithmetic followed by % modulus is arithmetic modulo 2^w, for every type *)
Lemma k_add_mod st a b : k_add st a b = (a + b) mod modulus st.
Proof. apply wrap_then_mod. Qed.
Lemma k_sub_mod st a b : k_sub st a b = (a - b) mod modulus st.
Proof. apply wrap_then_mod. Qed.
Lemma k_mul_mod st a b : k_mul st a b = (a * b) mod modulus st.
Proof. apply wrap_then_mod. Qed.

(* ------------------------------------------------------------------ mixed-radix indexing *)
Definition valid_shape (sh : list Z) : Prop := Forall (fun d => 0 < d) sh.
(* idx is a multi-index of shape sh *)
Inductive in_shape : list Z -> list Z -> Prop :=
| in_shape_nil : in_shape [] []
| in_shape_cons x d idx sh : 0 <= x < d -> in_shape idx sh -> in_shape (x :: idx) (d :: sh).

(* row-major position, written independently of the implementation *)
Fixpoint flat_pos (idx sh : list Z) : Z :=
  match idx, sh with
  | x :: idx', d :: sh' => x * prod_list sh' + flat_pos idx' sh'
  | _, _ => 0
  end.

Lemma prod_list_pos sh : valid_shape sh -> 0 < prod_list sh.
Proof.
  induction 1 as [|d sh Hd _ IH]; cbn [prod_list fold_right]; [lia|].
  change (fold_right Z.mul 1 sh) with (prod_list sh). nia.
Qed.

Lemma flat_pos_range idx sh : in_shape idx sh -> 0 <= flat_pos idx sh < prod_list sh.
Proof.
  induction 1 as [|x d idx sh Hx _ IH]; cbn [flat_pos prod_list fold_right]; [lia|].
  change (fold_right Z.mul 1 sh) with (prod_list sh). nia.
Qed.

Lemma index_to_number_aux_spec idx sh : in_shape idx sh -> forall acc,
  index_to_number_aux acc idx sh = Ok (acc * prod_list sh + flat_pos idx sh).
Proof.
  induction 1 as [|x d idx sh Hx _ IH]; intros acc; cbn [index_to_number_aux flat_pos prod_list fold_right].
  - f_equal. lia.
  - change (fold_right Z.mul 1 sh) with (prod_list sh).
    replace (d =? 0) with false by lia. rewrite IH. rewrite Z.mod_small by lia. f_equal. ring.
Qed.

(* the implementation's index -> position map is the row-major position *)
Lemma index_to_number_flat_pos idx sh :
  in_shape idx sh -> index_to_number idx sh = Ok (flat_pos idx sh).
Proof. intros H. unfold index_to_number. rewrite index_to_number_aux_spec by auto. f_equal; lia. Qed.

Lemma number_to_index_aux_spec sh : valid_shape sh -> forall n,
  0 <= n < prod_list sh ->
  exists idx, number_to_index_aux n (prod_list sh) sh = Ok idx /\ in_shape idx sh /\ flat_pos idx sh = n.
Proof.
  induction 1 as [|d sh Hd Hv IH]; intros n Hn; cbn [number_to_index_aux prod_list fold_right] in *.
  - exists []. repeat split; [constructor| simpl; lia].
  - change (fold_right Z.mul 1 sh) with (prod_list sh) in *.
    pose proof (prod_list_pos sh Hv) as Hp.
    replace (d =? 0) with false by lia.
    rewrite (Z.mul_comm d), Z.div_mul by lia.
    replace (prod_list sh =? 0) with false by lia.
    destruct (IH (n mod prod_list sh)) as (idx & E & Hin & Hf); [apply Z.mod_pos_bound; lia|].
    rewrite E. cbn [bind]. eexists. split; [reflexivity|]. split.
    + constructor; auto. split; [apply Z.div_pos; lia|]. apply Z.div_lt_upper_bound; lia.
    + cbn [flat_pos]. rewrite Hf. pose proof (Z.div_mod n (prod_list sh)). lia.
Qed.

(* position -> index is the inverse of the row-major position, for every valid shape *)
Theorem number_to_index_inverse sh n :
  valid_shape sh -> 0 <= n < prod_list sh ->
  exists idx, number_to_index n sh = Ok idx /\ in_shape idx sh /\ flat_pos idx sh = n.
Proof. intros. unfold number_to_index. apply number_to_index_aux_spec; auto. Qed.

Theorem index_number_roundtrip sh n :
  valid_shape sh -> 0 <= n < prod_list sh ->
  (let* idx := number_to_index n sh in index_to_number idx sh) = Ok n.
Proof.
  intros Hv Hn. destruct (number_to_index_inverse sh n Hv Hn) as (idx & E & Hin & Hf).
  rewrite E. cbn [bind]. rewrite index_to_number_flat_pos by auto. now rewrite Hf.
Qed.

(* ------------------------------------------------------------------ A2B / B2A *)
Lemma from_bits_lsb_bits_lsb w x : 0 <= x -> from_bits_lsb (bits_lsb w x) = x mod 2 ^ Z.of_nat w.
Proof.
  revert x; induction w as [|w IH]; intros x Hx.
  - simpl. now rewrite Z.mod_1_r.
  - cbn [bits_lsb from_bits_lsb]. rewrite IH by (apply Z.div_pos; lia).
    rewrite Nat2Z.inj_succ, Z.pow_succ_r by lia.
    assert (0 < 2 ^ Z.of_nat w) by (apply Z.pow_pos_nonneg; lia).
    rewrite (Z.rem_mul_r x 2 (2 ^ Z.of_nat w)) by lia. reflexivity.
Qed.

Lemma bits_lsb_are_bits w x : Forall (fun b => b = 0 \/ b = 1) (bits_lsb w x).
Proof.
  revert x; induction w as [|w IH]; intros x; cbn [bits_lsb]; constructor; auto.
  pose proof (Z.mod_pos_bound x 2). lia.
Qed.

Lemma bits_lsb_length w x : length (bits_lsb w x) = w.
Proof. revert x; induction w; intros; simpl; auto. Qed.

(* B2A after A2B is the identity on every normalised element of every scalar type *)
Theorem b2a_a2b_elem st x :
  0 <= x < modulus st -> from_bits_lsb (bits_lsb (Z.to_nat (width st)) x) = x.
Proof.
  intros Hx. rewrite from_bits_lsb_bits_lsb by lia.
  rewrite Z2Nat.id by (pose proof (width_pos st); lia). apply Z.mod_small. exact Hx.
Qed.

(* ------------------------------------------------------------------ plaintext Truncate *)
(* documented semantics: divide the type's integer value, rounding toward zero for signed
   types, and re-encode modulo 2^w *)
Theorem truncate_elem_spec st scale x :
  0 < scale -> 0 <= x < modulus st ->
  eval_truncate_elem st scale x =
    (if signed st then Z.quot (sval st x) scale else x / scale) mod modulus st.
Proof.
  intros Hs Hx. unfold eval_truncate_elem, sval, norm.
  rewrite (Z.mod_small x) by lia.
  destruct (signed st) eqn:S; cbn [andb].
  - assert (E : modulus st = 2 * 2 ^ (width st - 1)).
    { unfold modulus. rewrite <- Z.pow_succ_r by (pose proof (width_pos st); lia). f_equal; lia. }
    destruct (width st =? 128) eqn:W.
    + assert (M : modulus st = two128) by (unfold modulus, two128; f_equal; lia).
      replace (2 ^ (width st - 1)) with (2 ^ 127) in * by (f_equal; lia).
      rewrite M. reflexivity.
    + assert (Hh : modulus st / 2 = 2 ^ (width st - 1)).
      { rewrite E. rewrite Z.mul_comm. apply Z.div_mul. lia. }
      rewrite Hh. set (h := 2 ^ (width st - 1)) in *.
      destruct (h <=? x) eqn:L.
      * (* negative value *)
        set (v := x - modulus st). assert (Hv : - h <= v < 0) by (unfold v; lia).
        assert (Q : - h <= Z.quot v scale <= 0).
        { split.
          - apply Z.quot_le_lower_bound; try lia. nia.
          - rewrite <- (Z.quot_0_l scale) by lia. apply Z.quot_le_mono; lia. }
        destruct (Z.quot v scale <? 0) eqn:N.
        -- apply Z.mod_unique with (q := -1); lia.
        -- rewrite Z.mod_small; lia.
      * assert (Q : 0 <= Z.quot x scale <= x).
        { split; [apply Z.quot_pos; lia|]. apply Z.quot_le_upper_bound; nia. }
        replace (Z.quot x scale <? 0) with false by lia. rewrite Z.mod_small; lia.
  - assert (Q : 0 <= x / scale <= x).
    { split; [apply Z.div_pos; lia|]. apply Z.div_le_upper_bound; nia. }
    rewrite Z.mod_small; lia.
Qed.

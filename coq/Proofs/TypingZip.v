(* C09 preservation: Zip, Gather, InversePermutation. *)
From Coq Require Import Permutation.
From CC Require Import Base.Prelude Base.Scalar Base.Ty Base.Shape Graph.Value Graph.IR Graph.Eval
  Graph.Typing Proofs.EvalProofs Proofs.TypingBase Proofs.TypingTuple Proofs.TypingArith
  Proofs.TypingBits Proofs.TypingReduce Proofs.TypingStruct Proofs.TypingPermute.

(* ------------------------------------------------------------------ Zip *)
Lemma zip_rows_typed : forall k fuel (ls : list (list value)) ets,
  ls <> [] -> Forall (fun l => length l = k) ls ->
  Forall2 (fun l e => Forall (fun v => ht v e) l) ls ets -> (k < fuel)%nat ->
  length (zip_rows fuel ls) = k /\ Forall (fun row => ht row (TTuple ets)) (zip_rows fuel ls).
Proof.
  induction k as [|k IH]; intros fuel ls ets N L F Hf; (destruct fuel as [|fuel]; [lia|]); cbn [zip_rows].
  - destruct ls as [|l ls]; [congruence|]. inversion L as [|? ? Ll _]; subst.
    destruct l; [|discriminate]. cbn [forallb andb]. split; [reflexivity| constructor].
  - assert (Hne : forallb (fun l : list value => match l with [] => false | _ => true end) ls = true).
    { apply forallb_forall. intros l Hl. rewrite Forall_forall in L. specialize (L l Hl). destruct l; [discriminate| reflexivity]. }
    rewrite Hne. destruct ls as [|l0 ls0] eqn:Els; [congruence|]. rewrite <- Els in *.
    destruct (IH fuel (map (@tl value) ls) ets) as [L' F'].
    + subst ls. discriminate.
    + apply Forall_forall. intros l Hl. apply in_map_iff in Hl as (l' & <- & Hl').
      rewrite Forall_forall in L. specialize (L l' Hl'). destruct l'; cbn in *; lia.
    + clear - F. induction F as [|l e ls ets Hl _ IHF]; cbn [map]; constructor; auto.
      destruct l; cbn [tl]; [constructor| inversion Hl; auto].
    + lia.
    + cbn [length]. split; [lia|]. constructor; [|exact F'].
      apply has_type_tuple. clear - F L. induction F as [|l e ls ets Hl _ IHF]; cbn [map]; constructor.
      * inversion L as [|? ? Ll _]; subst. destruct l; [discriminate|]. inversion Hl; auto.
      * apply IHF. inversion L; auto.
Qed.

Lemma zip_operands vs ts len : Forall2 wt vs ts ->
  (forall t, In t ts -> exists e, t = TVector len e) ->
  exists ls, mapM tup_of vs = Ok ls /\ Forall (fun l => length l = Z.to_nat len) ls /\
             Forall2 (fun l e => Forall (fun v => ht v e) l) ls (map vec_elem ts) /\
             length ls = length ts.
Proof.
  induction 1 as [|v t vs ts [Hv Hk] _ IH]; intros A; cbn [mapM map].
  - exists []. repeat split; constructor.
  - destruct (A t (or_introl eq_refl)) as (e & ->).
    destruct (has_type_tup_inv v (TVector len e) eq_refl Hv) as (l & ->). cbn [tup_of bind].
    apply has_type_vector in Hv as [Ll Fl].
    destruct IH as (ls & -> & L & F & Len); [intros; apply A; now right|]. cbn [bind].
    exists (l :: ls). split; [reflexivity|]. repeat split.
    + constructor; [lia| exact L].
    + cbn [vec_elem]. constructor; auto.
    + cbn [length]. lia.
Qed.

Lemma preserves_zip : preserves OZip.
Proof.
  intros ts t vs Hu H HF. inv_infer H.
  destruct (zlen ts <? 2) eqn:L2; [discriminate|]. unfold zlen in L2.
  destruct ts as [|t0 ts']; [discriminate|]. destruct t0 as [| |len e0| |]; try discriminate.
  remember (TVector len e0 :: ts') as ts eqn:Ets.
  destruct (forallb (fun t => match t with TVector n _ => n =? len | _ => false end) ts) eqn:A; [|discriminate].
  apply register_ok in H as [-> _]. cbn [eval_node].
  rewrite forallb_forall in A.
  assert (A' : forall t, In t ts -> exists e, t = TVector len e).
  { intros t Ht. specialize (A t Ht). destruct t; try discriminate. eexists. f_equal. lia. }
  destruct (zip_operands vs ts len HF A') as (ls & -> & L & F & Len). cbn [bind safe_typed].
  assert (Hlen : 0 <= len).
  { subst ts. inversion HF as [|v0 ? vs0 ? [Hv0 _] _]; subst.
    destruct (has_type_tup_inv v0 (TVector len e0) eq_refl Hv0) as (l & ->).
    apply has_type_vector in Hv0 as [Ll _]. lia. }
  assert (Nls : ls <> []) by (subst ts; destruct ls; [cbn in Len; lia| discriminate]).
  assert (Hfuel : (Z.to_nat len < S (fold_right (fun l m => Nat.max (length l) m) O ls))%nat).
  { destruct ls as [|l ls']; [congruence|]. inversion L; subst. cbn [fold_right]. lia. }
  destruct (zip_rows_typed (Z.to_nat len) _ ls (map vec_elem ts) Nls L F Hfuel) as [Lz Fz].
  apply has_type_vector. split; [lia| exact Fz].
Qed.

(* ------------------------------------------------------------------ Gather *)
Lemma split_at {A} (d : A) k l : (k < length l)%nat -> l = firstn k l ++ nth k l d :: skipn (S k) l.
Proof.
  revert k; induction l as [|a l IH]; intros k Hk; cbn [length] in Hk; [lia|].
  destruct k; cbn [firstn nth skipn app]; [reflexivity|]. f_equal. apply IH. lia.
Qed.

Lemma prod_split_at sh k : (k < length sh)%nat ->
  prod_list sh = prod_list (firstn k sh) * nth k sh 0 * prod_list (skipn (S k) sh).
Proof.
  intros Hk. rewrite (split_at 0 k sh Hk) at 1. rewrite prod_list_app. cbn [prod_list fold_right].
  change (fold_right Z.mul 1 (skipn (S k) sh)) with (prod_list (skipn (S k) sh)). ring.
Qed.

Lemma eval_gather_typed (P : Z -> Prop) sh es idx axis :
  valid_shape sh -> 0 <= axis < Z.of_nat (length sh) -> Z.of_nat (length es) = prod_list sh ->
  Forall P es -> Forall (fun e => 0 <= e) idx ->
  match eval_gather sh es idx axis with
  | Ok r => Z.of_nat (length r) =
            prod_list (firstn (Z.to_nat axis) sh) * Z.of_nat (length idx) * prod_list (skipn (Z.to_nat axis + 1) sh)
            /\ Forall P r
  | Err => True
  | _ => False
  end.
Proof.
  intros Vsh Hax Le Fe Fi. unfold eval_gather.
  set (k := Z.to_nat axis). replace (Z.to_nat (axis + 1)) with (S k) by lia. replace (k + 1)%nat with (S k) by lia.
  assert (Hk : (k < length sh)%nat) by lia.
  rewrite (znth_ok sh axis 0) by lia. fold k. cbn [bind].
  pose proof (prod_split_at sh k Hk) as Ps.
  destruct (valid_shape_split k sh Vsh) as [Vf _]. destruct (valid_shape_split (S k) sh Vsh) as [_ Vs].
  pose proof (prod_list_pos _ Vf) as Pf. pose proof (prod_list_pos _ Vs) as Pr.
  assert (Pd : 0 < nth k sh 0).
  { unfold valid_shape in Vsh. rewrite Forall_forall in Vsh. apply Vsh. apply nth_In. lia. }
  set (dim := nth k sh 0) in *. set (row := prod_list (skipn (S k) sh)) in *.
  set (na := prod_list (firstn k sh)) in *.
  match goal with |- context [mapM ?g (zrange na)] =>
    pose proof (mapM_safe g (fun r => Z.of_nat (length r) = Z.of_nat (length idx) * row /\ Forall P r) (zrange na)) as Hrows
  end.
  match type of Hrows with ?A -> _ => assert (HA : A) end.
  { intros ai Hai. apply zrange_in in Hai. cbn beta.
    match goal with |- context [mapM ?g idx] =>
      pose proof (mapM_safe g (fun p => Z.of_nat (length p) = row /\ Forall P p) idx) as Hparts end.
    match type of Hparts with ?A -> _ => assert (HB : A) end.
    { intros e He. rewrite Forall_forall in Fi. specialize (Fi e He). cbn beta.
      destruct (dim <=? e) eqn:De; [exact I|].
      assert (B1 : ai * dim + e + 1 <= na * dim) by nia.
      assert (B2 : (ai * dim + e + 1) * row <= na * dim * row) by (apply Z.mul_le_mono_nonneg_r; lia).
      destruct (slice_z_ok P es ((ai * dim + e) * row) row) as (r & -> & Lr & Fr); auto; try nia. }
    specialize (Hparts HB). destruct (mapM _ idx) as [parts| | |]; cbn [bind]; auto.
    destruct Hparts as [Lp Fp]. split.
    - rewrite (concat_length_const parts (Z.to_nat row)).
      + nia.
      + eapply Forall_impl; [|exact Fp]. cbn. intros a [La _]. lia.
    - apply Forall_forall. intros x Hx. apply in_concat in Hx as (p & Hp & Hx).
      rewrite Forall_forall in Fp. destruct (Fp p Hp) as [_ F]. rewrite Forall_forall in F. auto. }
  specialize (Hrows HA). destruct (mapM _ (zrange na)) as [rows| | |]; cbn [bind]; auto.
  destruct Hrows as [Lrows Frows]. split.
  - rewrite (concat_length_const rows (Z.to_nat (Z.of_nat (length idx) * row))).
    + rewrite Lrows, zrange_length. nia.
    + eapply Forall_impl; [|exact Frows]. cbn. intros a [La _]. lia.
  - apply Forall_forall. intros x Hx. apply in_concat in Hx as (p & Hp & Hx).
    rewrite Forall_forall in Frows. destruct (Frows p Hp) as [_ F]. rewrite Forall_forall in F. auto.
Qed.

Lemma preserves_gather axis : preserves (OGather axis).
Proof.
  intros ts t vs Hu H HF. inv_infer H. apply zlen_eq in Harity. cbn [op_u64] in Hu.
  destruct (two_deps _ _ Harity HF) as (v0 & t0 & v1 & t1 & -> & -> & [Hv0 Hok0] & [Hv1 Hok1]).
  cbn [nth] in H. cbn [eval_node nth nth_res bind].
  destruct t0 as [|sh st0| | |]; try discriminate. cbn [is_arr negb shape_of st_of] in *.
  destruct t1 as [|ish ist| | |]; try discriminate.
  destruct (width ist =? 128); [discriminate|].
  destruct (signed ist || scalar_eqb ist Bit); [discriminate|].
  destruct (zlen sh <=? axis) eqn:Ax; [discriminate|]. unfold zlen in Ax.
  apply bind_ok in H as (d & Ed & H).
  destruct (d <? prod_list ish); [discriminate|]. apply register_ok in H as [-> _].
  destruct v0 as [es|]; [|discriminate]. apply has_type_array in Hv0 as [Le Fe].
  destruct v1 as [idx|]; [|discriminate]. apply has_type_array in Hv1 as [Li _].
  destruct (ty_ok_array _ _ Hok0) as [Vsh _].
  cbn [arr_of bind st_of].
  pose proof (eval_gather_typed (fun e => 0 <= e < modulus st0) sh es (map (as_u64 ist) idx) axis Vsh) as G.
  destruct (eval_gather sh es (map (as_u64 ist) idx) axis) as [r| | |]; cbn [bind safe_typed];
    try (apply G; auto; try lia; apply Forall_forall; intros e He; apply in_map_iff in He as (x & <- & _); apply as_u64_nonneg).
  destruct G as [Lr Fr]; auto; try lia.
  { apply Forall_forall. intros e He. apply in_map_iff in He as (x & <- & _). apply as_u64_nonneg. }
  apply has_type_array. split; [|exact Fr].
  rewrite Lr, map_length, Li, !prod_list_app. ring.
Qed.

(* C20: list/bit lemmas behind the piecewise-linear evaluation (bits_of, tree_retrieve, zip_with). *)
From CC Require Import Base.Prelude Model.Fixed.
Local Ltac Zify.zify_post_hook ::= Z.to_euclidean_division_equations.

Ltac pw :=
  change (2 ^ 63) with 9223372036854775808 in *;
  change (2 ^ 64) with 18446744073709551616 in *.

Definition word (x : Z) : Prop := 0 <= x < 2 ^ 64.
Definition bitp (b : Z) : Prop := b = 0 \/ b = 1.

Lemma wrap_word : forall x, word (wrap 64 x).
Proof. intros x. unfold word, wrap. apply Z.mod_pos_bound. reflexivity. Qed.

Lemma sv_wrap_id : forall v, - 2 ^ 63 <= v < 2 ^ 63 -> sv 64 (wrap 64 v) = v.
Proof.
  intros v Hv. unfold sv, wrap. change (64 - 1) with 63. pw.
  destruct (Z.ltb_spec (v mod 18446744073709551616) 9223372036854775808); lia.
Qed.

Lemma wrap_sv : forall x, word x -> wrap 64 (sv 64 x) = x.
Proof.
  intros x Hx. unfold word, sv, wrap in *. change (64 - 1) with 63. pw.
  destruct (Z.ltb_spec x 9223372036854775808); lia.
Qed.

Lemma sv_range : forall x, word x -> - 2 ^ 63 <= sv 64 x < 2 ^ 63.
Proof.
  intros x Hx. unfold word, sv in *. change (64 - 1) with 63. pw.
  destruct (Z.ltb_spec x 9223372036854775808); lia.
Qed.

Lemma wrap_congr : forall a b, (a - b) mod 2 ^ 64 = 0 -> wrap 64 a = wrap 64 b.
Proof. intros a b H. unfold wrap. pw. lia. Qed.

(* ---------------------------------------------------------------- zrange, bits *)
Lemma zrange_length : forall n lo, length (zrange lo n) = n.
Proof. induction n; intros; cbn [zrange length]; [reflexivity|]. now rewrite IHn. Qed.

Lemma zrange_In : forall n lo x, In x (zrange lo n) <-> lo <= x < lo + Z.of_nat n.
Proof.
  induction n; intros lo x; cbn [zrange In].
  - lia.
  - rewrite IHn. lia.
Qed.

Lemma map_zrange_shift : forall {A} (f : Z -> A) n lo,
  map f (zrange (lo + 1) n) = map (fun i => f (i + 1)) (zrange lo n).
Proof.
  intros A f n; induction n; intros lo; cbn [zrange map]; [reflexivity|].
  f_equal. apply IHn.
Qed.

Fixpoint bits' (n : nat) (y : Z) : list Z :=
  match n with O => [] | S n' => y mod 2 :: bits' n' (y / 2) end.

Lemma bits_of_bits' : forall n y,
  map (fun i => (y / 2 ^ i) mod 2) (zrange 0 n) = bits' n y.
Proof.
  induction n; intros y; [reflexivity|].
  cbn [zrange map bits']. f_equal.
  - now rewrite Z.pow_0_r, Z.div_1_r.
  - rewrite (map_zrange_shift (fun i => (y / 2 ^ i) mod 2) n 0).
    rewrite <- IHn. apply map_ext_in. intros i Hi. apply zrange_In in Hi.
    rewrite Z.pow_add_r by lia. change (2 ^ 1) with 2.
    rewrite (Z.mul_comm (2 ^ i) 2), <- Z.div_div by (try apply Z.pow_pos_nonneg; lia).
    reflexivity.
Qed.

Lemma bits_of_eq : forall w y, bits_of w y = bits' (Z.to_nat w) y.
Proof. intros. unfold bits_of. apply bits_of_bits'. Qed.

Lemma bits'_length : forall n y, length (bits' n y) = n.
Proof. induction n; intros; cbn [bits' length]; [reflexivity|]. now rewrite IHn. Qed.

Lemma bits'_bitp : forall n y, Forall bitp (bits' n y).
Proof.
  induction n; intros y; cbn [bits']; constructor; [|apply IHn].
  unfold bitp. lia.
Qed.

Lemma firstn_bits' : forall n k y, (n <= k)%nat -> firstn n (bits' k y) = bits' n y.
Proof.
  induction n; intros k y H; [reflexivity|].
  destruct k; [lia|]. cbn [bits' firstn]. f_equal. apply IHn. lia.
Qed.

Lemma bits'_firstn_skipn : forall m n k y, (m + n <= k)%nat ->
  firstn n (skipn m (bits' k y)) = bits' n (y / 2 ^ Z.of_nat m).
Proof.
  induction m; intros n k y H.
  - cbn [skipn]. change (Z.of_nat 0) with 0. rewrite Z.pow_0_r, Z.div_1_r.
    apply firstn_bits'. lia.
  - destruct k; [lia|]. cbn [bits' skipn]. rewrite IHm by lia.
    f_equal. rewrite Nat2Z.inj_succ, Z.pow_succ_r by lia.
    assert (0 < 2 ^ Z.of_nat m) by (apply Z.pow_pos_nonneg; lia).
    rewrite Z.div_div by lia. reflexivity.
Qed.

Lemma bits'_all_zero : forall n y,
  forallb (Z.eqb 0) (bits' n y) = true <-> y mod 2 ^ Z.of_nat n = 0.
Proof.
  induction n; intros y; cbn [bits' forallb].
  - change (Z.of_nat 0) with 0. rewrite Z.pow_0_r, Z.mod_1_r. tauto.
  - rewrite andb_true_iff, IHn, Nat2Z.inj_succ, Z.pow_succ_r by lia.
    assert (HP : 0 < 2 ^ Z.of_nat n) by (apply Z.pow_pos_nonneg; lia).
    rewrite (Z.rem_mul_r y 2 (2 ^ Z.of_nat n)) by lia.
    set (r := (y / 2) mod 2 ^ Z.of_nat n).
    assert (0 <= r) by (apply Z.mod_pos_bound; lia).
    lia.
Qed.

Lemma from_bits_bits' : forall n y, from_bits (bits' n y) = y mod 2 ^ Z.of_nat n.
Proof.
  induction n; intros y; cbn [bits' from_bits].
  - change (Z.of_nat 0) with 0. now rewrite Z.pow_0_r, Z.mod_1_r.
  - rewrite IHn, Nat2Z.inj_succ, Z.pow_succ_r by lia.
    assert (HP : 0 < 2 ^ Z.of_nat n) by (apply Z.pow_pos_nonneg; lia).
    rewrite (Z.rem_mul_r y 2 (2 ^ Z.of_nat n)) by lia. reflexivity.
Qed.

(* ---------------------------------------------------------------- zip_with, firstn *)
Lemma zip_with_nth : forall {A} (f : A -> A -> A) l1 l2 n,
  nth_error (zip_with f l1 l2) n =
  match nth_error l1 n, nth_error l2 n with
  | Some a, Some b => Some (f a b) | _, _ => None end.
Proof.
  intros A f; induction l1 as [|a r IH]; intros l2 n.
  - cbn [zip_with]. destruct n; reflexivity.
  - destruct l2 as [|b r2]; cbn [zip_with].
    + destruct n; cbn [nth_error]; [reflexivity|]. destruct (nth_error r n); reflexivity.
    + destruct n; cbn [nth_error]; [reflexivity|]. apply IH.
Qed.

Lemma zip_with_length : forall {A} (f : A -> A -> A) l1 l2,
  length l1 = length l2 -> length (zip_with f l1 l2) = length l1.
Proof.
  intros A f; induction l1 as [|a r IH]; intros [|b r2] H; cbn [zip_with length] in *; try lia.
  rewrite IH; lia.
Qed.

Lemma nth_error_firstn' : forall {A} n (l : list A) k, (k < n)%nat ->
  nth_error (firstn n l) k = nth_error l k.
Proof.
  intros A; induction n; intros l k H; [lia|].
  destruct l; [reflexivity|]. destruct k; cbn [firstn nth_error]; [reflexivity|].
  apply IHn. lia.
Qed.

Lemma rev_head_last : forall {A} (l : list A) v t,
  rev l = v :: t -> nth_error l (length l - 1) = Some v.
Proof.
  intros A l v t H. assert (Hl : l = rev t ++ [v]).
  { rewrite <- (rev_involutive l), H. reflexivity. }
  subst l. rewrite app_length. cbn [length].
  rewrite nth_error_app2 by lia.
  replace (length (rev t) + 1 - 1 - length (rev t))%nat with O by lia. reflexivity.
Qed.

(* ---------------------------------------------------------------- tree_retrieve *)
Lemma sel_word : forall e o b, word e -> word o -> bitp b ->
  wadd 64 (wmul 64 (wsub 64 o e) b) e = if b =? 0 then e else o.
Proof.
  intros e o b He Ho [Hb|Hb]; subst b; unfold word, wadd, wmul, wsub, wrap in *; pw.
  - change (0 =? 0) with true. cbv iota. rewrite Z.mul_0_r. lia.
  - change (1 =? 0) with false. cbv iota. rewrite Z.mul_1_r. lia.
Qed.

Lemma evens_odds_nth : forall j l e o,
  nth_error (evens_odds l) j = Some (e, o) ->
  nth_error l (2 * j) = Some e /\ nth_error l (2 * j + 1) = Some o.
Proof.
  induction j; intros l e o H; destruct l as [|a [|b r]]; cbn [evens_odds nth_error] in H;
    try discriminate.
  - inversion H; subst. split; reflexivity.
  - replace (2 * S j)%nat with (S (S (2 * j))) by lia.
    replace (S (S (2 * j)) + 1)%nat with (S (S (2 * j + 1))) by lia.
    cbn [nth_error]. apply IHj. exact H.
Qed.

Lemma evens_odds_length : forall k l, length l = (2 * k)%nat -> length (evens_odds l) = k.
Proof.
  induction k; intros l H; destruct l as [|a [|b r]]; cbn [length evens_odds] in *; try lia.
  f_equal. apply IHk. lia.
Qed.

Lemma tree_retrieve_nth : forall bs data,
  Forall bitp bs -> Forall word data -> length data = (2 ^ length bs)%nat ->
  0 <= from_bits bs /\
  exists v, tree_retrieve bs data = Ok v /\ nth_error data (Z.to_nat (from_bits bs)) = Some v.
Proof.
  induction bs as [|b bs IH]; intros data Hb Hw Hl.
  - cbn [length Nat.pow] in Hl. destruct data as [|v [|? ?]]; try discriminate.
    cbn [tree_retrieve from_bits]. split; [lia|]. exists v. split; reflexivity.
  - cbn [tree_retrieve from_bits].
    inversion Hb as [|b' bs' Hb1 Hb2]; subst.
    set (sel := fun eo : Z * Z => wadd 64 (wmul 64 (wsub 64 (snd eo) (fst eo)) b) (fst eo)).
    set (data' := map sel (evens_odds data)).
    assert (Hl' : length data' = (2 ^ length bs)%nat).
    { unfold data'. rewrite map_length. apply evens_odds_length.
      rewrite Hl. cbn [length]. rewrite Nat.pow_succ_r'. reflexivity. }
    assert (Hw' : Forall word data').
    { apply Forall_forall. intros x Hx. unfold data' in Hx. apply in_map_iff in Hx.
      destruct Hx as [eo [Hx _]]. subst x. unfold sel, wadd. apply wrap_word. }
    destruct (IH data' Hb2 Hw' Hl') as [Hj [v [Hv Hn]]].
    split; [destruct Hb1; subst; lia|].
    exists v. split; [exact Hv|].
    unfold data' in Hn. rewrite nth_error_map in Hn.
    destruct (nth_error (evens_odds data) (Z.to_nat (from_bits bs))) as [[e o]|] eqn:Heo;
      [|discriminate].
    cbn [option_map] in Hn. inversion Hn as [Hv']. clear Hn.
    apply evens_odds_nth in Heo. destruct Heo as [He Ho].
    assert (Hwe : word e) by (eapply Forall_forall; [exact Hw|eapply nth_error_In; exact He]).
    assert (Hwo : word o) by (eapply Forall_forall; [exact Hw|eapply nth_error_In; exact Ho]).
    unfold sel. cbn [fst snd]. rewrite (sel_word e o b Hwe Hwo Hb1).
    destruct Hb1; subst b.
    + change (0 =? 0) with true. cbv iota.
      replace (Z.to_nat (0 + 2 * from_bits bs)) with (2 * Z.to_nat (from_bits bs))%nat by lia.
      exact He.
    + change (1 =? 0) with false. cbv iota.
      replace (Z.to_nat (1 + 2 * from_bits bs)) with (2 * Z.to_nat (from_bits bs) + 1)%nat by lia.
      exact Ho.
Qed.

(* Generated (harness/src/c20.rs, tier gen): interval proofs for the committed table gelu_p15. *)
From Coq Require Import Reals.
From Interval Require Import Tactic.
From CC Require Import Base.Prelude Model.PwlData Proofs.PwlReal.
Open Scope R_scope.

Lemma gelu_p15_seg1 : seg_bound gelu_fn (0) (7/1000) 32768 1073741824 (-139264) (-122880) (-20) (-2686976).
Proof. unfold seg_bound, gelu_fn. intros x Hx; apply Rabs_le; split; apply Rminus_le; interval with (i_bisect x, i_taylor x, i_prec 53). Qed.
Lemma gelu_p15_seg2 : seg_bound gelu_fn (0) (7/1000) 32768 1073741824 (-122880) (-114688) (-52) (-6619136).
Proof. unfold seg_bound, gelu_fn. intros x Hx; apply Rabs_le; split; apply Rminus_le; interval with (i_bisect x, i_taylor x, i_prec 53). Qed.
Lemma gelu_p15_seg3 : seg_bound gelu_fn (0) (7/1000) 32768 1073741824 (-114688) (-106496) (-124) (-14876672).
Proof. unfold seg_bound, gelu_fn. intros x Hx; apply Rabs_le; split; apply Rminus_le; interval with (i_bisect x, i_taylor x, i_prec 53). Qed.
Lemma gelu_p15_seg4 : seg_bound gelu_fn (0) (7/1000) 32768 1073741824 (-106496) (-98304) (-272) (-30638080).
Proof. unfold seg_bound, gelu_fn. intros x Hx; apply Rabs_le; split; apply Rminus_le; interval with (i_bisect x, i_taylor x, i_prec 53). Qed.
Lemma gelu_p15_seg5 : seg_bound gelu_fn (0) (7/1000) 32768 1073741824 (-98304) (-90112) (-536) (-56590336).
Proof. unfold seg_bound, gelu_fn. intros x Hx; apply Rabs_le; split; apply Rminus_le; interval with (i_bisect x, i_taylor x, i_prec 53). Qed.
Lemma gelu_p15_seg6 : seg_bound gelu_fn (0) (7/1000) 32768 1073741824 (-90112) (-81920) (-964) (-95158272).
Proof. unfold seg_bound, gelu_fn. intros x Hx; apply Rabs_le; split; apply Rminus_le; interval with (i_bisect x, i_taylor x, i_prec 53). Qed.
Lemma gelu_p15_seg7 : seg_bound gelu_fn (0) (7/1000) 32768 1073741824 (-81920) (-73728) (-1588) (-146276352).
Proof. unfold seg_bound, gelu_fn. intros x Hx; apply Rabs_le; split; apply Rminus_le; interval with (i_bisect x, i_taylor x, i_prec 53). Qed.
Lemma gelu_p15_seg8 : seg_bound gelu_fn (0) (7/1000) 32768 1073741824 (-73728) (-65536) (-2384) (-204963840).
Proof. unfold seg_bound, gelu_fn. intros x Hx; apply Rabs_le; split; apply Rminus_le; interval with (i_bisect x, i_taylor x, i_prec 53). Qed.
Lemma gelu_p15_seg9 : seg_bound gelu_fn (0) (7/1000) 32768 1073741824 (-65536) (-57344) (-3252) (-261849088).
Proof. unfold seg_bound, gelu_fn. intros x Hx; apply Rabs_le; split; apply Rminus_le; interval with (i_bisect x, i_taylor x, i_prec 53). Qed.
Lemma gelu_p15_seg10 : seg_bound gelu_fn (0) (7/1000) 32768 1073741824 (-57344) (-49152) (-3960) (-302448640).
Proof. unfold seg_bound, gelu_fn. intros x Hx; apply Rabs_le; split; apply Rminus_le; interval with (i_bisect x, i_taylor x, i_prec 53). Qed.
Lemma gelu_p15_seg11 : seg_bound gelu_fn (0) (7/1000) 32768 1073741824 (-49152) (-40960) (-4176) (-313065472).
Proof. unfold seg_bound, gelu_fn. intros x Hx; apply Rabs_le; split; apply Rminus_le; interval with (i_bisect x, i_taylor x, i_prec 53). Qed.
Lemma gelu_p15_seg12 : seg_bound gelu_fn (0) (7/1000) 32768 1073741824 (-40960) (-32768) (-3476) (-284393472).
Proof. unfold seg_bound, gelu_fn. intros x Hx; apply Rabs_le; split; apply Rminus_le; interval with (i_bisect x, i_taylor x, i_prec 53). Qed.
Lemma gelu_p15_seg13 : seg_bound gelu_fn (0) (7/1000) 32768 1073741824 (-32768) (-24576) (-1472) (-218726400).
Proof. unfold seg_bound, gelu_fn. intros x Hx; apply Rabs_le; split; apply Rminus_le; interval with (i_bisect x, i_taylor x, i_prec 53). Qed.
Lemma gelu_p15_seg14 : seg_bound gelu_fn (0) (7/1000) 32768 1073741824 (-24576) (-16384) 2064 (-131825664).
Proof. unfold seg_bound, gelu_fn. intros x Hx; apply Rabs_le; split; apply Rminus_le; interval with (i_bisect x, i_taylor x, i_prec 53). Qed.
Lemma gelu_p15_seg15 : seg_bound gelu_fn (0) (7/1000) 32768 1073741824 (-16384) (-8192) 7072 (-49774592).
Proof. unfold seg_bound, gelu_fn. intros x Hx; apply Rabs_le; split; apply Rminus_le; interval with (i_bisect x, i_taylor x, i_prec 53). Qed.
Lemma gelu_p15_seg16 : seg_bound gelu_fn (0) (7/1000) 32768 1073741824 (-8192) 0 13148 0.
Proof. unfold seg_bound, gelu_fn. intros x Hx; apply Rabs_le; split; apply Rminus_le; interval with (i_bisect x, i_taylor x, i_prec 53). Qed.
Lemma gelu_p15_seg17 : seg_bound gelu_fn (0) (7/1000) 32768 1073741824 0 8192 19616 0.
Proof. unfold seg_bound, gelu_fn. intros x Hx; apply Rabs_le; split; apply Rminus_le; interval with (i_bisect x, i_taylor x, i_prec 53). Qed.
Lemma gelu_p15_seg18 : seg_bound gelu_fn (0) (7/1000) 32768 1073741824 8192 16384 25696 (-49807360).
Proof. unfold seg_bound, gelu_fn. intros x Hx; apply Rabs_le; split; apply Rminus_le; interval with (i_bisect x, i_taylor x, i_prec 53). Qed.
Lemma gelu_p15_seg19 : seg_bound gelu_fn (0) (7/1000) 32768 1073741824 16384 24576 30704 (-131858432).
Proof. unfold seg_bound, gelu_fn. intros x Hx; apply Rabs_le; split; apply Rminus_le; interval with (i_bisect x, i_taylor x, i_prec 53). Qed.
Lemma gelu_p15_seg20 : seg_bound gelu_fn (0) (7/1000) 32768 1073741824 24576 32768 34240 (-218759168).
Proof. unfold seg_bound, gelu_fn. intros x Hx; apply Rabs_le; split; apply Rminus_le; interval with (i_bisect x, i_taylor x, i_prec 53). Qed.
Lemma gelu_p15_seg21 : seg_bound gelu_fn (0) (7/1000) 32768 1073741824 32768 40960 36244 (-284426240).
Proof. unfold seg_bound, gelu_fn. intros x Hx; apply Rabs_le; split; apply Rminus_le; interval with (i_bisect x, i_taylor x, i_prec 53). Qed.
Lemma gelu_p15_seg22 : seg_bound gelu_fn (0) (7/1000) 32768 1073741824 40960 49152 36944 (-313098240).
Proof. unfold seg_bound, gelu_fn. intros x Hx; apply Rabs_le; split; apply Rminus_le; interval with (i_bisect x, i_taylor x, i_prec 53). Qed.
Lemma gelu_p15_seg23 : seg_bound gelu_fn (0) (7/1000) 32768 1073741824 49152 57344 36728 (-302481408).
Proof. unfold seg_bound, gelu_fn. intros x Hx; apply Rabs_le; split; apply Rminus_le; interval with (i_bisect x, i_taylor x, i_prec 53). Qed.
Lemma gelu_p15_seg24 : seg_bound gelu_fn (0) (7/1000) 32768 1073741824 57344 65536 36020 (-261881856).
Proof. unfold seg_bound, gelu_fn. intros x Hx; apply Rabs_le; split; apply Rminus_le; interval with (i_bisect x, i_taylor x, i_prec 53). Qed.
Lemma gelu_p15_seg25 : seg_bound gelu_fn (0) (7/1000) 32768 1073741824 65536 73728 35152 (-204996608).
Proof. unfold seg_bound, gelu_fn. intros x Hx; apply Rabs_le; split; apply Rminus_le; interval with (i_bisect x, i_taylor x, i_prec 53). Qed.
Lemma gelu_p15_seg26 : seg_bound gelu_fn (0) (7/1000) 32768 1073741824 73728 81920 34356 (-146309120).
Proof. unfold seg_bound, gelu_fn. intros x Hx; apply Rabs_le; split; apply Rminus_le; interval with (i_bisect x, i_taylor x, i_prec 53). Qed.
Lemma gelu_p15_seg27 : seg_bound gelu_fn (0) (7/1000) 32768 1073741824 81920 90112 33732 (-95191040).
Proof. unfold seg_bound, gelu_fn. intros x Hx; apply Rabs_le; split; apply Rminus_le; interval with (i_bisect x, i_taylor x, i_prec 53). Qed.
Lemma gelu_p15_seg28 : seg_bound gelu_fn (0) (7/1000) 32768 1073741824 90112 98304 33304 (-56623104).
Proof. unfold seg_bound, gelu_fn. intros x Hx; apply Rabs_le; split; apply Rminus_le; interval with (i_bisect x, i_taylor x, i_prec 53). Qed.
Lemma gelu_p15_seg29 : seg_bound gelu_fn (0) (7/1000) 32768 1073741824 98304 106496 33040 (-30670848).
Proof. unfold seg_bound, gelu_fn. intros x Hx; apply Rabs_le; split; apply Rminus_le; interval with (i_bisect x, i_taylor x, i_prec 53). Qed.
Lemma gelu_p15_seg30 : seg_bound gelu_fn (0) (7/1000) 32768 1073741824 106496 114688 32892 (-14909440).
Proof. unfold seg_bound, gelu_fn. intros x Hx; apply Rabs_le; split; apply Rminus_le; interval with (i_bisect x, i_taylor x, i_prec 53). Qed.
Lemma gelu_p15_seg31 : seg_bound gelu_fn (0) (7/1000) 32768 1073741824 114688 122880 32820 (-6651904).
Proof. unfold seg_bound, gelu_fn. intros x Hx; apply Rabs_le; split; apply Rminus_le; interval with (i_bisect x, i_taylor x, i_prec 53). Qed.
Lemma gelu_p15_seg32 : seg_bound gelu_fn (0) (7/1000) 32768 1073741824 122880 131072 32788 (-2719744).
Proof. unfold seg_bound, gelu_fn. intros x Hx; apply Rabs_le; split; apply Rminus_le; interval with (i_bisect x, i_taylor x, i_prec 53). Qed.

Lemma gelu_p15_table : table_bound gelu_fn (0) (7/1000) 15 gelu_p15_lb gelu_p15_left gelu_p15_divisor gelu_p15_alphas gelu_p15_betas.
Proof.
  unfold table_bound. intros i a b Hi Ha Hb.
  change (2 ^ gelu_p15_lb)%Z with 32%Z in Hi.
  assert (Hc : (i = 1 \/ i = 2 \/ i = 3 \/ i = 4 \/ i = 5 \/ i = 6 \/ i = 7 \/ i = 8 \/ i = 9 \/ i = 10 \/ i = 11 \/ i = 12 \/ i = 13 \/ i = 14 \/ i = 15 \/ i = 16 \/ i = 17 \/ i = 18 \/ i = 19 \/ i = 20 \/ i = 21 \/ i = 22 \/ i = 23 \/ i = 24 \/ i = 25 \/ i = 26 \/ i = 27 \/ i = 28 \/ i = 29 \/ i = 30 \/ i = 31 \/ i = 32)%Z) by lia.
  destruct Hc as [Hc|Hc]; [subst i; vm_compute in Ha, Hb; injection Ha as <-; injection Hb as <-; exact gelu_p15_seg1|].
  destruct Hc as [Hc|Hc]; [subst i; vm_compute in Ha, Hb; injection Ha as <-; injection Hb as <-; exact gelu_p15_seg2|].
  destruct Hc as [Hc|Hc]; [subst i; vm_compute in Ha, Hb; injection Ha as <-; injection Hb as <-; exact gelu_p15_seg3|].
  destruct Hc as [Hc|Hc]; [subst i; vm_compute in Ha, Hb; injection Ha as <-; injection Hb as <-; exact gelu_p15_seg4|].
  destruct Hc as [Hc|Hc]; [subst i; vm_compute in Ha, Hb; injection Ha as <-; injection Hb as <-; exact gelu_p15_seg5|].
  destruct Hc as [Hc|Hc]; [subst i; vm_compute in Ha, Hb; injection Ha as <-; injection Hb as <-; exact gelu_p15_seg6|].
  destruct Hc as [Hc|Hc]; [subst i; vm_compute in Ha, Hb; injection Ha as <-; injection Hb as <-; exact gelu_p15_seg7|].
  destruct Hc as [Hc|Hc]; [subst i; vm_compute in Ha, Hb; injection Ha as <-; injection Hb as <-; exact gelu_p15_seg8|].
  destruct Hc as [Hc|Hc]; [subst i; vm_compute in Ha, Hb; injection Ha as <-; injection Hb as <-; exact gelu_p15_seg9|].
  destruct Hc as [Hc|Hc]; [subst i; vm_compute in Ha, Hb; injection Ha as <-; injection Hb as <-; exact gelu_p15_seg10|].
  destruct Hc as [Hc|Hc]; [subst i; vm_compute in Ha, Hb; injection Ha as <-; injection Hb as <-; exact gelu_p15_seg11|].
  destruct Hc as [Hc|Hc]; [subst i; vm_compute in Ha, Hb; injection Ha as <-; injection Hb as <-; exact gelu_p15_seg12|].
  destruct Hc as [Hc|Hc]; [subst i; vm_compute in Ha, Hb; injection Ha as <-; injection Hb as <-; exact gelu_p15_seg13|].
  destruct Hc as [Hc|Hc]; [subst i; vm_compute in Ha, Hb; injection Ha as <-; injection Hb as <-; exact gelu_p15_seg14|].
  destruct Hc as [Hc|Hc]; [subst i; vm_compute in Ha, Hb; injection Ha as <-; injection Hb as <-; exact gelu_p15_seg15|].
  destruct Hc as [Hc|Hc]; [subst i; vm_compute in Ha, Hb; injection Ha as <-; injection Hb as <-; exact gelu_p15_seg16|].
  destruct Hc as [Hc|Hc]; [subst i; vm_compute in Ha, Hb; injection Ha as <-; injection Hb as <-; exact gelu_p15_seg17|].
  destruct Hc as [Hc|Hc]; [subst i; vm_compute in Ha, Hb; injection Ha as <-; injection Hb as <-; exact gelu_p15_seg18|].
  destruct Hc as [Hc|Hc]; [subst i; vm_compute in Ha, Hb; injection Ha as <-; injection Hb as <-; exact gelu_p15_seg19|].
  destruct Hc as [Hc|Hc]; [subst i; vm_compute in Ha, Hb; injection Ha as <-; injection Hb as <-; exact gelu_p15_seg20|].
  destruct Hc as [Hc|Hc]; [subst i; vm_compute in Ha, Hb; injection Ha as <-; injection Hb as <-; exact gelu_p15_seg21|].
  destruct Hc as [Hc|Hc]; [subst i; vm_compute in Ha, Hb; injection Ha as <-; injection Hb as <-; exact gelu_p15_seg22|].
  destruct Hc as [Hc|Hc]; [subst i; vm_compute in Ha, Hb; injection Ha as <-; injection Hb as <-; exact gelu_p15_seg23|].
  destruct Hc as [Hc|Hc]; [subst i; vm_compute in Ha, Hb; injection Ha as <-; injection Hb as <-; exact gelu_p15_seg24|].
  destruct Hc as [Hc|Hc]; [subst i; vm_compute in Ha, Hb; injection Ha as <-; injection Hb as <-; exact gelu_p15_seg25|].
  destruct Hc as [Hc|Hc]; [subst i; vm_compute in Ha, Hb; injection Ha as <-; injection Hb as <-; exact gelu_p15_seg26|].
  destruct Hc as [Hc|Hc]; [subst i; vm_compute in Ha, Hb; injection Ha as <-; injection Hb as <-; exact gelu_p15_seg27|].
  destruct Hc as [Hc|Hc]; [subst i; vm_compute in Ha, Hb; injection Ha as <-; injection Hb as <-; exact gelu_p15_seg28|].
  destruct Hc as [Hc|Hc]; [subst i; vm_compute in Ha, Hb; injection Ha as <-; injection Hb as <-; exact gelu_p15_seg29|].
  destruct Hc as [Hc|Hc]; [subst i; vm_compute in Ha, Hb; injection Ha as <-; injection Hb as <-; exact gelu_p15_seg30|].
  destruct Hc as [Hc|Hc]; [subst i; vm_compute in Ha, Hb; injection Ha as <-; injection Hb as <-; exact gelu_p15_seg31|].
  subst i; vm_compute in Ha, Hb; injection Ha as <-; injection Hb as <-; exact gelu_p15_seg32.
Qed.

(* The evaluator model: eval_node mirrors SimpleEvaluator::evaluate_node
   (evaluators/simple_evaluator.rs:647-1388) arm by arm on decoded values, index arithmetic
   included.  Operations whose value is supplied from outside (Random, PRF and the operations
   not mirrored here) are read from a tape indexed by node id. *)
From CC Require Import Base.Prelude Base.Scalar Base.Ty Base.Shape Graph.Value Graph.IR.

(* bytes.rs:16-41 kernels: wrapping u128 arithmetic, then % modulus *)
Definition two128 : Z := 2 ^ 128.
Definition k_add (st : scalar) (a b : Z) : Z := ((a + b) mod two128) mod modulus st.
Definition k_sub (st : scalar) (a b : Z) : Z := ((a - b) mod two128) mod modulus st.
Definition k_mul (st : scalar) (a b : Z) : Z := ((a * b) mod two128) mod modulus st.

Fixpoint zip_with {A B C} (f : A -> B -> C) (l1 : list A) (l2 : list B) : list C :=
  match l1, l2 with x :: xs, y :: ys => f x y :: zip_with f xs ys | _, _ => [] end.

(* functional array update; an out-of-range index is a Rust panic *)
Fixpoint upd_nat {A} (l : list A) (i : nat) (v : A) : result (list A) :=
  match l, i with
  | _ :: r, O => Ok (v :: r)
  | x :: r, S i' => let* r' := upd_nat r i' v in Ok (x :: r')
  | [], _ => Panic
  end.
Definition upd {A} (l : list A) (i : Z) (v : A) : result (list A) :=
  if i <? 0 then Panic else upd_nat l (Z.to_nat i) v.

Definition arr_of (v : value) : result (list Z) :=
  match v with VArr es => Ok es | VTup _ => Err end.     (* to_flattened_array on a vector: error *)
Definition tup_of (v : value) : result (list value) :=
  match v with VTup vs => Ok vs | VArr _ => Err end.     (* to_vector on bytes: error *)

Definition slice_z {A} (l : list A) (from len : Z) : result (list A) :=
  if (from <? 0) || (len <? 0) || (Z.of_nat (length l) <? from + len) then Panic
  else Ok (firstn (Z.to_nat len) (skipn (Z.to_nat from) l)).

Definition last_z (l : list Z) : Z := last l 0.

(* simple_evaluator.rs:80 evaluate_add_subtract_multiply *)
Definition eval_arith (k : scalar -> Z -> Z -> Z) (t0 t1 tr : ty) (v0 v1 : value) : result value :=
  if negb (is_leaf t0 && is_leaf t1) then Err else
  let st := match t0, t1 with TScalar _, TArray _ s => s | _, _ => st_of t0 end in
  let* a := arr_of v0 in let* b := arr_of v1 in
  let* a' := broadcast_to_shape a (dims t0) (dims tr) in
  let* b' := broadcast_to_shape b (dims t1) (dims tr) in
  Ok (VArr (zip_with (k st) a' b')).

(* simple_evaluator.rs:138 evaluate_mixed_multiply: st comes from the first operand *)
Definition eval_mixed (t0 t1 tr : ty) (v0 v1 : value) : result value :=
  if negb (is_leaf t0 && is_leaf t1) then Err else
  let st := st_of t0 in
  let* a := arr_of v0 in let* b := arr_of v1 in
  let* a' := broadcast_to_shape a (dims t0) (dims tr) in
  let* b' := broadcast_to_shape b (dims t1) (dims tr) in
  Ok (VArr (zip_with (k_mul st) a' b')).

Definition dot_lists (st : scalar) (a b : list Z) : Z :=
  fold_left (fun acc p => k_add st acc (k_mul st (fst p) (snd p))) (combine a b) 0.

Definition insert_at {A} (l : list A) (i : nat) (x : A) : list A := firstn i l ++ x :: skipn i l.

(* simple_evaluator.rs:175 evaluate_dot *)
Definition eval_dot (t0 t1 tr : ty) (v0 v1 : value) : result value :=
  let st := st_of t0 in
  if is_arr t0 && is_arr t1 then
    let s0 := shape_of t0 in let s1 := shape_of t1 in
    let* e0 := arr_of v0 in let* e1 := arr_of v1 in
    if (length s0 =? 1)%nat && (length s1 =? 1)%nat then
      let* acc :=
        fold_left (fun acc i => let* a := acc in let* x := znth e0 i in let* y := znth e1 i in
                                Ok (k_add st a (k_mul st x y)))
                  (zrange (hd 0 s0)) (Ok 0) in
      Ok (VArr [acc])
    else
      let rs := shape_of tr in
      let rlen := if is_scalar tr then 1 else prod_list rs in
      let l0 := length s0 in let l1 := length s1 in
      let* middle := if (1 <? l1)%nat then znth s1 (Z.of_nat l1 - 2) else znth s1 0 in
      let* res :=
        mapM (fun i =>
                let* ri := number_to_index i rs in
                fold_left (fun acc j =>
                             let* a := acc in
                             if (length ri <? l0 - 1)%nat then Panic else
                             let index0 := firstn (l0 - 1) ri ++ [j] in
                             let index1 := if (1 <? l1)%nat
                                           then (let tl := skipn (l0 - 1) ri in
                                                 if (length tl =? 0)%nat then [] (* insert panics below *)
                                                 else insert_at tl (length tl - 1) j)
                                           else [j] in
                             if (1 <? l1)%nat && (length (skipn (l0 - 1) ri) =? 0)%nat then Panic else
                             let* n0 := index_to_number index0 s0 in
                             let* n1 := index_to_number index1 s1 in
                             let* x := znth e0 n0 in let* y := znth e1 n1 in
                             Ok (k_add st a (k_mul st x y)))
                          (zrange middle) (Ok 0))
             (zrange rlen) in
      Ok (VArr res)
  else eval_arith k_mul t0 t1 tr v0 v1.

(* simple_evaluator.rs:245 evaluate_matmul *)
Definition eval_matmul (t0 t1 tr : ty) (v0 v1 : value) : result value :=
  let st := st_of t0 in
  if negb (is_arr t0 && is_arr t1) then Panic else
  let s0 := shape_of t0 in let s1 := shape_of t1 in
  let* e0 := arr_of v0 in let* e1 := arr_of v1 in
  if (length s0 =? 1)%nat && (length s1 =? 1)%nat then
    let* acc :=
      fold_left (fun acc i => let* a := acc in let* x := znth e0 i in let* y := znth e1 i in
                              Ok (k_add st a (k_mul st x y)))
                (zrange (hd 0 s0)) (Ok 0) in
    Ok (VArr [acc])
  else
    let rs0 := shape_of tr in
    let rlen := if is_scalar tr then 1 else prod_list rs0 in
    let '(s0', rs1) := if (length s0 =? 1)%nat then (1 :: s0, insert_at rs0 (length rs0 - 1) 1) else (s0, rs0) in
    let '(s1', rs) := if (length s1 =? 1)%nat then (insert_at s1 1 1, rs1 ++ [1]) else (s1, rs1) in
    let l0 := length s0' in let l1 := length s1' in let lr := length rs in
    let* middle := znth s1' (Z.of_nat l1 - 2) in
    if (lr <? l0)%nat || (lr <? l1)%nat then Panic else
    let* res :=
      mapM (fun i =>
              let* ri := number_to_index i rs in
              fold_left (fun acc j =>
                           let* a := acc in
                           let index0 := firstn (l0 - 1) (skipn (lr - l0) ri) ++ [j] in
                           let* index1 := upd (skipn (lr - l1) ri) (Z.of_nat l1 - 2) j in
                           let* n0 := index_to_number index0 s0' in
                           let* n1 := index_to_number index1 s1' in
                           let* x := znth e0 n0 in let* y := znth e1 n1 in
                           Ok (k_add st a (k_mul st x y)))
                        (zrange middle) (Ok 0))
           (zrange rlen) in
    Ok (VArr res).

(* simple_evaluator.rs:312 evaluate_permute_axes *)
Definition eval_permute_axes (cur_shape : list Z) (es : list Z) (perm out_shape : list Z) : result (list Z) :=
  fold_left (fun acc i =>
               let* r := acc in
               let* old := number_to_index i cur_shape in
               let* new := mapM (fun j => znth old j) perm in
               let* pos := index_to_number new out_shape in
               let* x := znth es i in
               upd r pos x)
            (zrange (Z.of_nat (length es))) (Ok (repeat 0 (length es))).

(* type_inference.rs transpose_shape: swap the last two dimensions (rank >= 2) *)
Definition transpose_shape (s : list Z) (tr : bool) : list Z :=
  if negb tr then s else
  let n := length s in
  if (n <? 2)%nat then s else
  firstn (n - 2) s ++ [nth (n - 1) s 0; nth (n - 2) s 0].
Definition transpose_permutation (n : nat) : list Z :=
  if (n =? 1)%nat then [0] else
  zrange (Z.of_nat n - 2) ++ [Z.of_nat n - 1; Z.of_nat n - 2].

(* simple_evaluator.rs:341 evaluate_transpose_array *)
Definition eval_transpose (shape : list Z) (es : list Z) : result (list Z) :=
  let out := transpose_shape shape true in
  eval_permute_axes shape es (transpose_permutation (length out)) out.

(* simple_evaluator.rs:352 general_gemm *)
Definition general_gemm (st : scalar) (e0 e1 : list Z) (s0 s1 rs : list Z) : result (list Z) :=
  let row_size := last_z s1 in
  let rlen := prod_list rs in
  let* n0 := znth s0 (Z.of_nat (length s0) - 2) in
  let* n1 := znth s1 (Z.of_nat (length s1) - 2) in
  let msize := n0 * n1 in
  if msize <=? 0 then Panic else
  if (length rs <? length s0)%nat || (length rs <? length s1)%nat then Panic else
  let starts := map (fun q => q * msize) (zrange ((rlen + msize - 1) / msize)) in
  let* blocks :=
    mapM (fun matrix_i =>
            let* start := number_to_index matrix_i rs in
            let index0 := skipn (length rs - length s0) start in
            let index1 := skipn (length rs - length s1) start in
            let* b0 := index_to_number index0 s0 in
            let* b1 := index_to_number index1 s1 in
            let* rows :=
              mapM (fun i =>
                      let* row0 := slice_z e0 (b0 + i * row_size) row_size in
                      mapM (fun j =>
                              let* row1 := slice_z e1 (b1 + j * row_size) row_size in
                              Ok (dot_lists st row0 row1))
                           (zrange n1))
                   (zrange n0) in
            Ok (concat rows))
         starts in
  Ok (concat blocks).

(* simple_evaluator.rs:413 evaluate_gemm *)
Definition eval_gemm (t0 t1 tr : ty) (ta tb : bool) (v0 v1 : value) : result value :=
  let* e0 := arr_of v0 in let* e1 := arr_of v1 in
  if negb (is_arr t0 && is_arr t1) then Err else
  let* x0 := if ta then eval_transpose (shape_of t0) e0 else Ok e0 in
  let* x1 := if negb tb then eval_transpose (shape_of t1) e1 else Ok e1 in
  let s0 := transpose_shape (shape_of t0) ta in
  let s1 := transpose_shape (shape_of t1) (negb tb) in
  let* r := general_gemm (st_of tr) x0 x1 s0 s1 (shape_of tr) in
  Ok (VArr r).

(* simple_evaluator.rs:569 evaluate_sum *)
Definition eval_sum (inp_t res_t : ty) (axes : list Z) (v : value) : result value :=
  let* values := arr_of v in
  if negb (is_arr inp_t) then Err else
  match res_t with
  | TScalar st => Ok (VArr [fold_left (k_add st) values 0])
  | TArray res_shape st =>
      match axes with
      | [] => Ok v
      | _ =>
          let inp_shape := shape_of inp_t in
          let res_axes := filter (fun j => negb (existsb (Z.eqb j) axes)) (zrange (Z.of_nat (length inp_shape))) in
          let* r :=
            fold_left (fun acc i =>
                         let* r := acc in
                         let* inp_index := number_to_index i inp_shape in
                         let* new_index := mapM (fun ax => znth inp_index ax) res_axes in
                         let* new_i := index_to_number new_index res_shape in
                         let* old := znth r new_i in
                         let* x := znth values i in
                         upd r new_i (k_add st old x))
                      (zrange (Z.of_nat (length values)))
                      (Ok (repeat 0 (Z.to_nat (prod_list res_shape)))) in
          Ok (VArr r)
      end
  | _ => Panic
  end.

(* simple_evaluator.rs:614 evaluate_cum_sum *)
Definition eval_cum_sum (t : ty) (axis : Z) (v : value) : result value :=
  let* in_vec := arr_of v in
  match t with
  | TArray shape st =>
      let* out :=
        fold_left (fun acc i =>
                     let* out := acc in
                     let* index := number_to_index i shape in
                     let* a := znth index axis in
                     if 0 <? a then
                       let* index' := upd index axis (a - 1) in
                       let* j := index_to_number index' shape in
                       let* oi := znth out i in let* oj := znth out j in
                       upd out i (k_add st oi oj)
                     else Ok out)
                  (zrange (Z.of_nat (length in_vec))) (Ok in_vec) in
      Ok (VArr out)
  | _ => Err
  end.

(* simple_evaluator.rs:39 flatten_value / :52 unflatten_value *)
Fixpoint flatten_value (v : value) : list value :=
  match v with
  | VArr _ => [v]
  | VTup vs => flat_map flatten_value vs
  end.
Fixpoint unflatten_value (t : ty) (flat : list value) : result (value * list value) :=
  match t with
  | TScalar _ | TArray _ _ =>
      match flat with x :: r => Ok (x, r) | [] => Panic end
  | TTuple ts =>
      let* (vs, r) :=
        (fix go (ts : list ty) (flat : list value) : result (list value * list value) :=
           match ts with
           | [] => Ok ([], flat)
           | t1 :: ts' => let* (v, r) := unflatten_value t1 flat in
                          let* (vs, r') := go ts' r in Ok (v :: vs, r')
           end) ts flat in
      Ok (VTup vs, r)
  | TNamed fs =>
      let* (vs, r) :=
        (fix go (fs : list (string * ty)) (flat : list value) : result (list value * list value) :=
           match fs with
           | [] => Ok ([], flat)
           | f :: fs' => let* (v, r) := unflatten_value (snd f) flat in
                         let* (vs, r') := go fs' r in Ok (v :: vs, r')
           end) fs flat in
      Ok (VTup vs, r)
  | TVector n t1 =>
      let* (vs, r) :=
        (fix go (k : nat) (flat : list value) : result (list value * list value) :=
           match k with
           | O => Ok ([], flat)
           | S k' => let* (v, r) := unflatten_value t1 flat in
                     let* (vs, r') := go k' r in Ok (v :: vs, r')
           end) (Z.to_nat n) flat in
      Ok (VTup vs, r)
  end.

(* bits of an element, LSB first (A2B is the identity on bytes: little-endian bytes, bits
   unpacked LSB first; on decoded values it is the binary expansion) *)
Fixpoint bits_lsb (w : nat) (x : Z) : list Z :=
  match w with O => [] | S w' => x mod 2 :: bits_lsb w' (x / 2) end.
Fixpoint from_bits_lsb (bs : list Z) : Z :=
  match bs with [] => 0 | b :: r => b + 2 * from_bits_lsb r end.

(* simple_evaluator.rs:1427 evaluate_gather *)
Definition eval_gather (input_shape : list Z) (entries indices : list Z) (axis : Z) : result (list Z) :=
  let num_arrays := prod_list (firstn (Z.to_nat axis) input_shape) in
  let row_size := prod_list (skipn (Z.to_nat (axis + 1)) input_shape) in
  let* dim := znth input_shape axis in
  let* rows :=
    mapM (fun array_i =>
            let* parts :=
              mapM (fun index_entry =>
                      if dim <=? index_entry then Err else
                      slice_z entries ((array_i * dim + index_entry) * row_size) row_size)
                   indices in
            Ok (concat parts))
         (zrange num_arrays) in
  Ok (concat rows).

(* simple_evaluator.rs:1407 execute_inverse_permutation *)
Definition inverse_permutation (values : list Z) : result (list Z) :=
  let n := Z.of_nat (length values) in
  fold_left (fun acc p =>
               let* r := acc in
               let '(i, value) := p in
               if n <=? value then Err else upd r value i)
            (combine (zrange n) values) (Ok (repeat 0 (length values))).

Fixpoint nodup_z (l : list Z) : bool :=
  match l with [] => true | x :: r => negb (existsb (Z.eqb x) r) && nodup_z r end.

(* plaintext Truncate, simple_evaluator.rs:962-1003 (`/` on i128 rounds toward zero) *)
Definition eval_truncate_elem (st : scalar) (scale entry : Z) : Z :=
  if signed st then
    if width st =? 128 then
      let v := if 2 ^ 127 <=? entry then entry - two128 else entry in
      (Z.quot v scale) mod two128
    else
      let m := modulus st in
      let v := if m / 2 <=? entry then entry - m else entry in
      let r := Z.quot v scale in
      if r <? 0 then r + m else r
  else entry / scale.

(* to_flattened_array_u64 / to_u64 of a normalised element: sign-extend, then `as u64` *)
Definition as_u64 (st : scalar) (x : Z) : Z := sval st x mod 2 ^ 64.

Definition named_index (fs : list (string * ty)) (name : string) : option Z :=
  (fix go (fs : list (string * ty)) (i : Z) :=
     match fs with
     | [] => None
     | f :: r => if String.eqb (fst f) name then Some i else go r (i + 1)
     end) fs 0.

(* Zip: rows of the i-th entries until the shortest operand runs out *)
Fixpoint zip_rows (fuel : nat) (vals : list (list value)) : list value :=
  match fuel with
  | O => []
  | S f =>
      if forallb (fun l => match l with [] => false | _ => true end) vals then
        match vals with
        | [] => []   (* no operands: the Rust loop would not terminate; excluded by typing *)
        | _ => VTup (map (fun l => hd (VArr []) l) vals) :: zip_rows f (map (@tl value) vals)
        end
      else []
  end.

Definition eval_node (o : op) (dts : list ty) (t : ty) (vs : list value) : result value :=
  let dt i := nth i dts (TTuple []) in
  let dv i := nth_res vs i in
  match o with
  | OInput _ | OCall | OIterate => Panic
  | OZeros t0 => Ok (const_of_type 0 t0)
  | OOnes t0 => Ok (const_of_type 1 t0)
  | OAdd => let* a := dv 0%nat in let* b := dv 1%nat in eval_arith k_add (dt 0%nat) (dt 1%nat) t a b
  | OSubtract => let* a := dv 0%nat in let* b := dv 1%nat in eval_arith k_sub (dt 0%nat) (dt 1%nat) t a b
  | OMultiply => let* a := dv 0%nat in let* b := dv 1%nat in eval_arith k_mul (dt 0%nat) (dt 1%nat) t a b
  | OMixedMultiply => let* a := dv 0%nat in let* b := dv 1%nat in eval_mixed (dt 0%nat) (dt 1%nat) t a b
  | ODot => let* a := dv 0%nat in let* b := dv 1%nat in eval_dot (dt 0%nat) (dt 1%nat) t a b
  | OMatmul => let* a := dv 0%nat in let* b := dv 1%nat in eval_matmul (dt 0%nat) (dt 1%nat) t a b
  | OGemm ta tb => let* a := dv 0%nat in let* b := dv 1%nat in eval_gemm (dt 0%nat) (dt 1%nat) t ta tb a b
  | OTruncate scale =>
      let* a := dv 0%nat in let* es := arr_of a in
      if negb (is_leaf (dt 0%nat)) then Err else
      if scale =? 0 then Panic else
      Ok (VArr (map (eval_truncate_elem (st_of (dt 0%nat)) scale) es))
  | OSum axes => let* a := dv 0%nat in eval_sum (dt 0%nat) t axes a
  | OCumSum axis => let* a := dv 0%nat in eval_cum_sum (dt 0%nat) axis a
  | OPermuteAxes perm =>
      let* a := dv 0%nat in let* es := arr_of a in
      if negb (is_arr (dt 0%nat)) then Err else
      let* r := eval_permute_axes (shape_of (dt 0%nat)) es perm (shape_of t) in Ok (VArr r)
  | OGet sub_index =>
      let* a := dv 0%nat in let* es := arr_of a in
      if negb (is_arr (dt 0%nat)) then Err else
      let shape := shape_of (dt 0%nat) in
      let k := length sub_index in
      let res_len := prod_list (skipn k shape) in
      let* num := index_to_number sub_index (firstn k shape) in
      if (length shape <? k)%nat then Panic else
      if res_len <=? 0 then Panic else
      if Z.of_nat (length es) / res_len <=? num then Panic else   (* .nth(..).unwrap() *)
      let* r := slice_z es (num * res_len) res_len in Ok (VArr r)
  | OGetSlice sl =>
      let* a := dv 0%nat in let* es := arr_of a in
      if negb (is_arr (dt 0%nat)) then Err else
      let dshape := shape_of (dt 0%nat) in
      let rshape := dims t in
      let* r :=
        mapM (fun i =>
                let* index := number_to_index i rshape in
                let* dindex := slice_index dshape sl index in
                let* j := index_to_number dindex dshape in
                znth es j)
             (zrange (prod_list rshape)) in
      Ok (VArr r)
  | OReshape new_t =>
      let* a := dv 0%nat in
      let* (v, _) := unflatten_value new_t (flatten_value a) in Ok v
  | ONOP => dv 0%nat
  | OA2B =>
      let* a := dv 0%nat in let* es := arr_of a in
      Ok (VArr (flat_map (bits_lsb (Z.to_nat (width (st_of (dt 0%nat))))) es))
  | OB2A st =>
      let* a := dv 0%nat in let* es := arr_of a in
      let w := Z.to_nat (width st) in
      Ok (VArr (map from_bits_lsb
                    ((fix go (fuel : nat) (l : list Z) : list (list Z) :=
                        match fuel with
                        | O => []
                        | S f => if (length l <? w)%nat then [] else firstn w l :: go f (skipn w l)
                        end) (length es) es)))
  | OStack outer_shape =>
      let full_shape := shape_of t in
      let inner_shape := if list_eqb Z.eqb full_shape outer_shape then [1]
                         else skipn (length outer_shape) full_shape in
      let* parts :=
        mapM (fun p => let '(v, dty) := p in
                       if negb (is_leaf dty) then Panic else
                       let* es := arr_of v in
                       broadcast_to_shape es (dims dty) inner_shape)
             (combine vs dts) in
      Ok (VArr (concat parts))
  | OConcatenate axis =>
      let result_shape := shape_of t in
      let num_arrays := prod_list (firstn (Z.to_nat axis) result_shape) in
      let item_length := prod_list (skipn (Z.to_nat axis + 1) result_shape) in
      let* deps :=
        mapM (fun p => let '(v, dty) := p in
                       let* es := arr_of v in
                       if negb (is_arr dty) then Err else
                       let* n := znth (shape_of dty) axis in Ok (es, n))
             (combine vs dts) in
      let* rows :=
        mapM (fun array_i =>
                let* parts :=
                  mapM (fun d => let '(es, num_items) := d in
                                 slice_z es (array_i * num_items * item_length) (num_items * item_length))
                       deps in
                Ok (concat parts))
             (zrange num_arrays) in
      Ok (VArr (concat rows))
  | OConstant _ v => Ok v
  | OCreateTuple | OCreateNamedTuple _ | OCreateVector _ => Ok (VTup vs)
  | OTupleGet i => let* a := dv 0%nat in let* l := tup_of a in znth l i
  | ONamedTupleGet name =>
      match dt 0%nat with
      | TNamed fs =>
          match named_index fs name with
          | Some i => let* a := dv 0%nat in let* l := tup_of a in znth l i
          | None => Panic
          end
      | _ => Panic
      end
  | OVectorGet =>
      let* a := dv 0%nat in let* iv := dv 1%nat in
      let* ies := arr_of iv in
      let* id := match ies with [x] => Ok (as_u64 (st_of (dt 1%nat)) x) | _ => Err end in
      match dt 0%nat with
      | TVector size _ =>
          if size <=? id then Err else let* l := tup_of a in znth l id
      | _ => Panic
      end
  | OZip =>
      let* ls := mapM tup_of vs in
      Ok (VTup (zip_rows (S (fold_right (fun l m => Nat.max (length l) m) O ls)) ls))
  | ORepeat n => let* a := dv 0%nat in Ok (VTup (repeat a (Z.to_nat n)))
  | OArrayToVector =>
      let* a := dv 0%nat in let* es := arr_of a in
      if negb (is_arr (dt 0%nat)) then Err else
      let row_len := prod_list (tl (shape_of (dt 0%nat))) in
      if row_len <=? 0 then Panic else
      let k := Z.to_nat row_len in
      Ok (VTup (map VArr
                    ((fix go (fuel : nat) (l : list Z) : list (list Z) :=
                        match fuel with
                        | O => []
                        | S f => if (length l <? k)%nat then [] else firstn k l :: go f (skipn k l)
                        end) (length es) es)))
  | OVectorToArray =>
      let* a := dv 0%nat in let* l := tup_of a in
      let* parts := mapM arr_of l in
      Ok (VArr (concat parts))
  | OGather axis =>
      let* a := dv 0%nat in let* es := arr_of a in
      let* iv := dv 1%nat in let* idx := arr_of iv in
      if negb (is_arr (dt 0%nat)) then Err else
      let* r := eval_gather (shape_of (dt 0%nat)) es (map (as_u64 (st_of (dt 1%nat))) idx) axis in
      Ok (VArr r)
  | OInversePermutation =>
      let* a := dv 0%nat in let* es := arr_of a in
      if negb (is_arr (dt 0%nat)) then Err else
      let values := map (as_u64 (st_of (dt 0%nat))) es in
      if negb (nodup_z values) then Err else
      let* r := inverse_permutation values in Ok (VArr r)
  | OApplyPermutation inv =>
      let* a := dv 0%nat in let* es := arr_of a in
      let* pv := dv 1%nat in let* p0 := arr_of pv in
      if negb (is_arr t) then Panic else
      let* n := znth (shape_of t) 0 in
      let perm := map (as_u64 (st_of (dt 1%nat))) p0 in
      let below := filter (fun x => x <? n) perm in
      (* the set of entries below n must have exactly n elements *)
      if negb (Z.of_nat (length (nodup Z.eq_dec below)) =? n) then Err else
      let* p := if inv then inverse_permutation perm else Ok perm in
      let* r := eval_gather (shape_of t) es p 0 in Ok (VArr r)
  | OSegmentCumSum =>
      let* a := dv 0%nat in let* input_array := arr_of a in
      let* b := dv 1%nat in let* binary_array := arr_of b in
      let* f := dv 2%nat in let* first_row := arr_of f in
      let st := st_of (dt 0%nat) in
      let row_size := prod_list (dims (dt 2%nat)) in
      let* r :=
        fold_left (fun acc p =>
                     let* r := acc in
                     let '(i, bit) := p in
                     let* input_row := slice_z input_array (i * row_size) row_size in
                     if bit =? 0 then Ok (r ++ input_row) else
                     let* prev := slice_z r (i * row_size) row_size in
                     Ok (r ++ zip_with (k_add st) input_row prev))
                  (combine (zrange (Z.of_nat (length binary_array))) binary_array) (Ok first_row) in
      Ok (VArr r)
  | OAssert _ =>
      let* a := dv 0%nat in let* es := arr_of a in
      match es with
      | [x] => if x =? 0 then Err else dv 1%nat
      | _ => Err
      end
  | OPrint _ => if (length vs =? 1)%nat then dv 0%nat else Err
  | _ => Err     (* supplied through the tape; reaching eval_node for them is "Not implemented" *)
  end.

(* Operations whose value comes from the tape recorded on (or quantified over for) a run *)
Definition from_tape (o : op) : bool :=
  match o with
  | OInput _ | ORandom _ | OPRF _ _ | OPermutationFromPRF _ _ | ORandomPermutation _
  | OCuckooHash | OCuckooToPermutation | ODecomposeSwitchingMap _ | OShard _
  | OShardWithColumnMasks _ | OJoin _ _ | OJoinWithColumnMasks _ _ | OSort _ | OCustom _
  | OCall | OIterate => true
  | _ => false
  end.

(* Evaluation of a fully inlined graph: fold over the node list; values in a reversed list. *)
Definition env := list value.     (* env[i] = value of node (len-1-i) *)
Definition env_get (e : env) (n : nat) (id : Z) : result value :=
  if (id <? 0) || (Z.of_nat n <=? id) then Panic else nth_res e (n - 1 - Z.to_nat id).

Definition eval_graph_nodes (nodes : list node) (tape : Z -> option value)
  : result (list value) :=
  let* (e, _, _) :=
    fold_left (fun acc nd =>
                 let* (e, n, tys) := acc in
                 let* v :=
                   if from_tape (n_op nd) then
                     match tape (Z.of_nat n) with Some v => Ok v | None => Err end
                   else
                     let* vs := mapM (env_get e n) (n_deps nd) in
                     let* dts := mapM (fun id => if (id <? 0) || (Z.of_nat n <=? id) then Panic
                                                 else nth_res tys (n - 1 - Z.to_nat id)) (n_deps nd) in
                     eval_node (n_op nd) dts (n_ty nd) vs in
                 Ok (v :: e, S n, n_ty nd :: tys))
              nodes (Ok ([], O, [])) in
  Ok (rev e).

Definition tape_of_list (l : list (Z * value)) : Z -> option value :=
  fun id => match find (fun p => fst p =? id) l with Some p => Some (snd p) | None => None end.

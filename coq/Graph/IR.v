(* The graph IR: one constructor per Operation variant of graphs.rs:110-171.  Node and graph
   identifiers are Z (binary), never nat. *)
From CC Require Import Base.Prelude Base.Scalar Base.Ty Base.Shape Graph.Value.

Inductive join_type := JInner | JLeft | JUnion | JFull.

Inductive op :=
| OInput (t : ty)
| OZeros (t : ty)
| OOnes (t : ty)
| OAdd | OSubtract | OMultiply | OMixedMultiply | ODot | OMatmul
| OGemm (ta tb : bool)
| OTruncate (scale : Z)
| OSum (axes : list Z)
| OCumSum (axis : Z)
| OPermuteAxes (perm : list Z)
| OGet (idx : list Z)
| OGetSlice (sl : list slice_elem)
| OReshape (t : ty)
| ONOP
| ORandom (t : ty)
| OPRF (iv : Z) (t : ty)
| OPermutationFromPRF (iv n : Z)
| OStack (outer : list Z)
| OConcatenate (axis : Z)
| OConstant (t : ty) (v : value)
| OA2B
| OB2A (st : scalar)
| OCreateTuple
| OCreateNamedTuple (names : list string)
| OCreateVector (t : ty)
| OTupleGet (i : Z)
| ONamedTupleGet (name : string)
| OVectorGet
| OZip
| ORepeat (n : Z)
| OCall
| OIterate
| OArrayToVector
| OVectorToArray
| ORandomPermutation (n : Z)
| OGather (axis : Z)
| OCuckooHash
| OInversePermutation
| OCuckooToPermutation
| ODecomposeSwitchingMap (n : Z)
| OSegmentCumSum
| OShard (cfg : string)
| OShardWithColumnMasks (cfg : string)
| OJoin (jt : join_type) (headers : list (string * string))
| OJoinWithColumnMasks (jt : join_type) (headers : list (string * string))
| OApplyPermutation (inv : bool)
| OSort (key : string)
| OCustom (name : string)
| OPrint (msg : string)
| OAssert (msg : string).

Inductive annot :=
| AAssociative | APrivate | ASend (s r : Z) | APRFMultiplication | APRFB2A | APRFTruncate | AMpcCall.
Inductive gannot := GAssociative | GOneBitState | GSmallState.

Definition annot_eqb (a b : annot) : bool :=
  match a, b with
  | AAssociative, AAssociative | APrivate, APrivate | APRFMultiplication, APRFMultiplication
  | APRFB2A, APRFB2A | APRFTruncate, APRFTruncate | AMpcCall, AMpcCall => true
  | ASend s r, ASend s' r' => (s =? s') && (r =? r')
  | _, _ => false
  end.
#[global] Instance Eqb_annot : Eqb annot := annot_eqb.

Record node := mkNode {
  n_op : op;
  n_deps : list Z;
  n_gdeps : list Z;
  n_annots : list annot;
  n_ty : ty
}.

Record graph := mkGraph {
  g_nodes : list node;          (* node id = position *)
  g_output : option Z;
  g_annots : list gannot
}.

Record context := mkContext {
  c_graphs : list graph;        (* graph id = position *)
  c_main : option Z
}.

Definition join_type_eqb (a b : join_type) :=
  match a, b with JInner, JInner | JLeft, JLeft | JUnion, JUnion | JFull, JFull => true | _, _ => false end.

Definition op_eqb (a b : op) : bool :=
  match a, b with
  | OInput t, OInput t' | OZeros t, OZeros t' | OOnes t, OOnes t' | OReshape t, OReshape t'
  | ORandom t, ORandom t' | OCreateVector t, OCreateVector t' => ty_eqb t t'
  | OAdd, OAdd | OSubtract, OSubtract | OMultiply, OMultiply | OMixedMultiply, OMixedMultiply
  | ODot, ODot | OMatmul, OMatmul | ONOP, ONOP | OA2B, OA2B | OCreateTuple, OCreateTuple
  | OVectorGet, OVectorGet | OZip, OZip | OCall, OCall | OIterate, OIterate
  | OArrayToVector, OArrayToVector | OVectorToArray, OVectorToArray | OCuckooHash, OCuckooHash
  | OInversePermutation, OInversePermutation | OCuckooToPermutation, OCuckooToPermutation
  | OSegmentCumSum, OSegmentCumSum => true
  | OGemm x y, OGemm x' y' => Bool.eqb x x' && Bool.eqb y y'
  | OTruncate x, OTruncate x' | OCumSum x, OCumSum x' | OConcatenate x, OConcatenate x'
  | OTupleGet x, OTupleGet x' | ORepeat x, ORepeat x' | ORandomPermutation x, ORandomPermutation x'
  | OGather x, OGather x' | ODecomposeSwitchingMap x, ODecomposeSwitchingMap x' => x =? x'
  | OSum l, OSum l' | OPermuteAxes l, OPermuteAxes l' | OGet l, OGet l' | OStack l, OStack l' =>
      list_eqb Z.eqb l l'
  | OGetSlice l, OGetSlice l' => list_eqb slice_elem_eqb l l'
  | OPRF iv t, OPRF iv' t' => (iv =? iv') && ty_eqb t t'
  | OPermutationFromPRF iv n, OPermutationFromPRF iv' n' => (iv =? iv') && (n =? n')
  | OConstant t v, OConstant t' v' => ty_eqb t t' && value_eqb v v'
  | OB2A s, OB2A s' => scalar_eqb s s'
  | OCreateNamedTuple l, OCreateNamedTuple l' => list_eqb String.eqb l l'
  | ONamedTupleGet s, ONamedTupleGet s' | OShard s, OShard s'
  | OShardWithColumnMasks s, OShardWithColumnMasks s' | OSort s, OSort s' | OCustom s, OCustom s'
  | OPrint s, OPrint s' | OAssert s, OAssert s' => String.eqb s s'
  | OJoin j h, OJoin j' h' | OJoinWithColumnMasks j h, OJoinWithColumnMasks j' h' =>
      join_type_eqb j j' && list_eqb (fun p q => String.eqb (fst p) (fst q) && String.eqb (snd p) (snd q)) h h'
  | OApplyPermutation b, OApplyPermutation b' => Bool.eqb b b'
  | _, _ => false
  end.
#[global] Instance Eqb_op : Eqb op := op_eqb.

Definition node_eqb (a b : node) : bool :=
  op_eqb (n_op a) (n_op b) && list_eqb Z.eqb (n_deps a) (n_deps b)
  && list_eqb Z.eqb (n_gdeps a) (n_gdeps b) && list_eqb annot_eqb (n_annots a) (n_annots b)
  && ty_eqb (n_ty a) (n_ty b).
#[global] Instance Eqb_node : Eqb node := node_eqb.

(* graphs.rs:193 is_prf_operation, :284 is_randomizing, :269 is_const_optimizable *)
Definition is_prf_operation (o : op) : bool :=
  match o with OPRF _ _ | OPermutationFromPRF _ _ => true | _ => false end.
Definition is_input (o : op) : bool := match o with OInput _ => true | _ => false end.
Definition is_randomizing (o : op) : result bool :=
  match o with
  | ORandom _ | ORandomPermutation _ | OCuckooToPermutation | ODecomposeSwitchingMap _ => Ok true
  | OCall | OIterate | OCustom _ => Err
  | _ => Ok false
  end.
Definition is_const_optimizable (o : op) : result bool :=
  match o with
  | OZeros _ | OOnes _ => Ok false
  | _ => let* r := is_randomizing o in Ok (negb (is_input o) && negb r && negb (is_prf_operation o))
  end.

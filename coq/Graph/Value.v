(* Decoded values: a leaf holds the flattened, normalised elements (0 <= e < 2^w) of a scalar
   or array (bits as 0/1, one per element); vectors, tuples and named tuples are all VTup, as in
   Rust's Value::Vector.  The byte-level form and its codec are Model/Bytes.v (C13). *)
From CC Require Import Base.Prelude Base.Scalar Base.Ty.

Inductive value :=
| VArr (es : list Z)
| VTup (vs : list value).

Section value_ind'.
  Variable P : value -> Prop.
  Hypothesis Ha : forall es, P (VArr es).
  Hypothesis Ht : forall vs, Forall P vs -> P (VTup vs).
  Fixpoint value_ind' (v : value) : P v :=
    match v with
    | VArr es => Ha es
    | VTup vs => Ht vs ((fix go (l : list value) : Forall P l :=
                           match l with [] => Forall_nil _
                                   | x :: xs => Forall_cons _ (value_ind' x) (go xs) end) vs)
    end.
End value_ind'.

Fixpoint value_eqb (a b : value) {struct a} : bool :=
  match a, b with
  | VArr x, VArr y => list_eqb Z.eqb x y
  | VTup xs, VTup ys =>
      (fix go (l l' : list value) : bool :=
         match l, l' with
         | [], [] => true
         | x :: xs, y :: ys => value_eqb x y && go xs ys
         | _, _ => false end) xs ys
  | _, _ => false
  end.
#[global] Instance Eqb_value : Eqb value := value_eqb.

(* element count of a scalar/array type; data_types.rs get_dimensions gives [1] for scalars *)
Definition dims (t : ty) : list Z :=
  match t with TScalar _ => [1] | TArray sh _ => sh | _ => [] end.
Definition shape_of (t : ty) : list Z :=
  match t with TArray sh _ => sh | _ => [] end.
Definition st_of (t : ty) : scalar :=
  match t with TScalar s | TArray _ s => s | _ => Bit end.
Definition is_scalar (t : ty) := match t with TScalar _ => true | _ => false end.
Definition is_arr (t : ty) := match t with TArray _ _ => true | _ => false end.
Definition is_leaf (t : ty) := match t with TScalar _ | TArray _ _ => true | _ => false end.

(* a value has type t: leaves carry prod(dims) normalised elements *)
Fixpoint has_type (v : value) (t : ty) {struct v} : bool :=
  match t, v with
  | TScalar s, VArr es => (length es =? 1)%nat && forallb (fun e => (0 <=? e) && (e <? modulus s)) es
  | TArray sh s, VArr es =>
      (Z.of_nat (length es) =? prod_list sh) && forallb (fun e => (0 <=? e) && (e <? modulus s)) es
  | TVector n t1, VTup vs => (Z.of_nat (length vs) =? n) && forallb (fun c => has_type c t1) vs
  | TTuple ts, VTup vs =>
      (fix go (vs : list value) (ts : list ty) : bool :=
         match vs, ts with
         | [], [] => true
         | c :: vs', t :: ts' => has_type c t && go vs' ts'
         | _, _ => false end) vs ts
  | TNamed fs, VTup vs =>
      (fix go (vs : list value) (fs : list (string * ty)) : bool :=
         match vs, fs with
         | [], [] => true
         | c :: vs', f :: fs' => has_type c (snd f) && go vs' fs'
         | _, _ => false end) vs fs
  | _, _ => false
  end.

(* data_values.rs:1157 zero_of_type / :1202 one_of_type on decoded values *)
Fixpoint const_of_type (c : Z) (t : ty) : value :=
  match t with
  | TScalar _ => VArr [c]
  | TArray sh _ => VArr (repeat c (Z.to_nat (prod_list sh)))
  | TVector n t1 => VTup (repeat (const_of_type c t1) (Z.to_nat n))
  | TTuple ts => VTup (map (const_of_type c) ts)
  | TNamed fs => VTup (map (fun p => const_of_type c (snd p)) fs)
  end.

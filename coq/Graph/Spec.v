(* Independent specifications of the primitive operations, written from the Graph method docs
   (graphs.rs:1626-3150, NumPy-style) in terms of multi-index access.  Nothing here mentions the
   evaluator's loops: an array is a flat row-major list together with its shape, [get a sh idx] is
   the element at multi-index [idx], sums are plain integer sums reduced modulo 2^w at the end.
   ([flat_pos], [in_shape], [valid_shape] come from Proofs/EvalProofs.v, where they are defined
   independently of the implementation's index arithmetic.) *)
From CC Require Import Base.Prelude Base.Scalar Base.Ty Base.Shape Graph.Value Graph.IR Graph.Eval
  Proofs.EvalProofs.

(* element of the row-major array [a] of shape [sh] at multi-index [idx] *)
Definition get (a sh idx : list Z) : Z := nth (Z.to_nat (flat_pos idx sh)) a 0.

(* sum_{i<n} f i *)
Definition zsum (f : Z -> Z) (n : Z) : Z := fold_right Z.add 0 (map f (zrange n)).
Definition list_sum_z (l : list Z) : Z := fold_right Z.add 0 l.

(* all multi-indices of a shape, in lexicographic order *)
Fixpoint all_indices (sh : list Z) : list (list Z) :=
  match sh with
  | [] => [[]]
  | d :: sh' => flat_map (fun x => map (cons x) (all_indices sh')) (zrange d)
  end.

(* ------------------------------------------------------------------ broadcasting *)
(* NumPy broadcasting of an operand of shape [s] (aligned at the trailing dimensions): along a
   dimension of size 1 the operand is repeated, i.e. its coordinate is 0 *)
Fixpoint bidx (idx s : list Z) : list Z :=
  match idx, s with
  | x :: idx', d :: s' => (if d =? 1 then 0 else x) :: bidx idx' s'
  | _, _ => []
  end.
(* s and rs have the same rank; every dimension of s is 1 or the dimension of rs *)
Inductive bcast_dims : list Z -> list Z -> Prop :=
| bcast_nil : bcast_dims [] []
| bcast_cons d r s rs : (d = 1 \/ d = r) -> bcast_dims s rs -> bcast_dims (d :: s) (r :: rs).
(* s is broadcastable to rs *)
Definition bcast_to (s rs : list Z) : Prop :=
  (length s <= length rs)%nat /\ valid_shape rs /\
  bcast_dims s (skipn (length rs - length s) rs).
(* the operand's multi-index read for result index idx *)
Definition bcast_index (s rs idx : list Z) : list Z :=
  bidx (skipn (length rs - length s) idx) s.

(* elementwise binary operation with broadcasting *)
Definition elementwise_spec (f : Z -> Z -> Z) (a sa b sb r rs : list Z) : Prop :=
  length r = Z.to_nat (prod_list rs) /\
  forall idx, in_shape idx rs ->
    get r rs idx = f (get a sa (bcast_index sa rs idx)) (get b sb (bcast_index sb rs idx)).

(* ------------------------------------------------------------------ sum / cumsum *)
(* the coordinates of idx at the axes not listed in [axes] (positions counted from k) *)
Fixpoint drop_axes (k : Z) (axes idx : list Z) : list Z :=
  match idx with
  | [] => []
  | x :: r => if existsb (Z.eqb k) axes then drop_axes (k + 1) axes r
              else x :: drop_axes (k + 1) axes r
  end.
(* numpy.sum(a, axis=axes)[ridx] = sum of a[idx] over all idx that agree with ridx off the axes *)
Definition sum_axes_at (a sh axes ridx : list Z) : Z :=
  list_sum_z (map (fun idx => if list_eqb Z.eqb (drop_axes 0 axes idx) ridx then get a sh idx else 0)
                  (all_indices sh)).
(* idx with coordinate [axis] replaced by t *)
Fixpoint set_axis (idx : list Z) (axis : nat) (t : Z) : list Z :=
  match idx, axis with
  | [], _ => []
  | _ :: r, O => t :: r
  | x :: r, S k => x :: set_axis r k t
  end.
(* numpy.cumsum(a, axis)[idx] = sum_{t <= idx[axis]} a[idx with axis := t] *)
Definition cumsum_at (a sh : list Z) (axis : nat) (idx : list Z) : Z :=
  zsum (fun t => get a sh (set_axis idx axis t)) (nth axis idx 0 + 1).

(* ------------------------------------------------------------------ permute_axes *)
(* numpy.transpose(a, perm): result[i_{perm 0}, i_{perm 1}, ...] = a[i_0, i_1, ...] *)
Definition permute_index (perm idx : list Z) : list Z := map (fun j => nth (Z.to_nat j) idx 0) perm.
Definition is_perm_of_rank (perm : list Z) (n : nat) : Prop :=
  length perm = n /\ (forall j, In j perm -> 0 <= j < Z.of_nat n) /\
  (forall k, 0 <= k < Z.of_nat n -> In k perm).

(* ------------------------------------------------------------------ matmul / dot *)
(* sum_{l<k} x l * y l *)
Definition dot_sum (k : Z) (x y : Z -> Z) : Z := zsum (fun l => x l * y l) k.

(* ------------------------------------------------------------------ slicing *)
(* Python slice normalisation b:e:s on a dimension d, and the number of selected positions *)
Definition py_begin (d : Z) (b s : option Z) : Z :=
  let step := match s with Some x => x | None => 1 end in
  match b with
  | Some x => if x <? 0 then x + d else x
  | None => if 0 <? step then 0 else d - 1
  end.
Definition py_step (s : option Z) : Z := match s with Some x => x | None => 1 end.

(* Source multi-index read by result index [ridx] of a[slice] (Python/NumPy basic indexing), for
   a slice whose Ellipsis has already been expanded into full sub-ranges ([clean]): a single
   index selects that coordinate and removes the axis, b:e:s selects begin + step * i, axes
   beyond the slice are taken whole. *)
Fixpoint slice_src (shape : list Z) (clean : list slice_elem) (ridx : list Z) : list Z :=
  match shape with
  | [] => []
  | d :: shape' =>
      match clean with
      | SSingle i :: c' => (if 0 <=? i then i else i + d) :: slice_src shape' c' ridx
      | SSub b e s :: c' =>
          match ridx with
          | x :: r => (py_begin d b s + py_step s * x) :: slice_src shape' c' r
          | [] => []
          end
      | SEllipsis :: _ => []
      | [] => match ridx with x :: r => x :: slice_src shape' [] r | [] => [] end
      end
  end.
(* Ellipsis expansion: `...` stands for as many full ranges as needed to reach the rank *)
Fixpoint expand_ellipsis (pad : nat) (slice : list slice_elem) : list slice_elem :=
  match slice with
  | [] => []
  | SEllipsis :: r => repeat (SSub None None None) pad ++ expand_ellipsis pad r
  | x :: r => x :: expand_ellipsis pad r
  end.

(* ------------------------------------------------------------------ gemm *)
(* the last two coordinates (or dimensions) [a; b] of an operand, swapped when the operand is
   given transposed *)
Definition tr_pair (t : bool) (a b : Z) : list Z := if t then [b; a] else [a; b].

(* ------------------------------------------------------------------ stack / concatenate *)
(* Stack: the common (broadcast) shape of the stacked items; scalars are stacked as one-element
   arrays, the trailing dimension 1 not being recorded in the result shape *)
Definition stack_inner (inner : list Z) : list Z := match inner with [] => [1] | _ => inner end.

(* numpy.concatenate along an axis whose operand sizes are [ns]: coordinate x of the result lies
   in operand q at local coordinate y, where (q, y) = concat_locate ns x *)
Fixpoint concat_locate (ns : list Z) (x : Z) : nat * Z :=
  match ns with
  | [] => (O, x)
  | n :: r => if x <? n then (O, x)
              else (S (fst (concat_locate r (x - n))), snd (concat_locate r (x - n)))
  end.

(* ------------------------------------------------------------------ reshape / vectors *)
(* number of arrays and scalars of a type in flattened form *)
Fixpoint leaf_count (t : ty) : nat :=
  match t with
  | TScalar _ | TArray _ _ => 1%nat
  | TVector n t1 => (Z.to_nat n * leaf_count t1)%nat
  | TTuple ts => list_sum (map leaf_count ts)
  | TNamed fs => list_sum (map (fun p => leaf_count (snd p)) fs)
  end.
(* a value has the tree structure of a type (element counts and ranges are has_type's business) *)
Inductive shaped : value -> ty -> Prop :=
| shaped_scalar es s : shaped (VArr es) (TScalar s)
| shaped_array es sh s : shaped (VArr es) (TArray sh s)
| shaped_vector vs n t : length vs = Z.to_nat n -> Forall (fun v => shaped v t) vs -> shaped (VTup vs) (TVector n t)
| shaped_tuple vs ts : Forall2 shaped vs ts -> shaped (VTup vs) (TTuple ts)
| shaped_named vs fs : Forall2 shaped vs (map snd fs) -> shaped (VTup vs) (TNamed fs).
Definition is_leaf_value (v : value) : Prop := match v with VArr _ => True | VTup _ => False end.

(* ------------------------------------------------------------------ segment cumulative sum *)
(* graphs.rs:2428: output[0] = v, output[i] = A[i-1] + B[i-1] * output[i-1] *)
Fixpoint seg_cumsum_at (a b : Z -> Z) (v : Z) (i : nat) : Z :=
  match i with
  | O => v
  | S k => a (Z.of_nat k) + b (Z.of_nat k) * seg_cumsum_at a b v k
  end.

(* ------------------------------------------------------------------ A2B / B2A on arrays *)
(* bit j of x, and the integer with little-endian bits b 0 .. b (w-1) *)
Definition bit_of (x j : Z) : Z := (x / 2 ^ j) mod 2.
Definition bits_value (b : Z -> Z) (w : Z) : Z := zsum (fun j => b j * 2 ^ j) w.

(* Type inference: [infer] mirrors TypeInferenceWorker::process_node
   (ciphercore-base/src/type_inference.rs:619-1685) rule by rule, on the operation and the
   (already inferred, hence valid) types of the node dependencies.

   Not part of [infer] (they are not part of process_node either): the cache lookup
   (type_inference.rs:620), the graph-dependency count (type_inference.rs:636-642; 0 for every
   operation below, the harness always passes no graph dependencies) and the size-limit checks
   of Graph::add_node (graphs.rs:3503-3522; the limits are u64::MAX-1 outside fuzzing builds).

   Operations answered with [Err] because they are NOT mirrored (the real rule may accept):
   Join, JoinWithColumnMasks, Sort, CuckooHash, Shard, ShardWithColumnMasks, Call, Iterate,
   Custom.  Every other Operation variant is mirrored.

   [Panic] models an out-of-range index or a debug-profile u64 overflow inside process_node. *)
From CC Require Import Base.Prelude Base.Scalar Base.Ty Base.Shape Graph.Value Graph.IR Graph.Eval.

Definition zlen {A} (l : list A) : Z := Z.of_nat (length l).

(* type_inference.rs:594 register_result: the result type must be valid *)
Definition register (t : ty) : result ty := if ty_valid t then Ok t else Err.

(* type_inference.rs:425 get_number_of_node_dependencies *)
Definition arity (o : op) : option Z :=
  match o with
  | OInput _ | OZeros _ | OOnes _ | ORandom _ | OConstant _ _ | ORandomPermutation _ => Some 0
  | OTruncate _ | OSum _ | OCumSum _ | OPermuteAxes _ | OInversePermutation
  | OCuckooToPermutation | OSort _ | OGet _ | OGetSlice _ | OReshape _ | ONOP | OPRF _ _
  | OPermutationFromPRF _ _ | OA2B | OB2A _ | OTupleGet _ | ONamedTupleGet _ | ORepeat _
  | OArrayToVector | OVectorToArray | ODecomposeSwitchingMap _ | OPrint _ | OShard _
  | OShardWithColumnMasks _ => Some 1
  | OAdd | OSubtract | OMultiply | OMixedMultiply | ODot | OMatmul | OVectorGet | OGather _
  | OIterate | OCuckooHash | OApplyPermutation _ | OJoin _ _ | OJoinWithColumnMasks _ _
  | OGemm _ _ | OAssert _ => Some 2
  | OSegmentCumSum => Some 3
  | OStack _ | OConcatenate _ | OCreateTuple | OCreateNamedTuple _ | OCreateVector _ | OZip
  | OCall | OCustom _ => None
  end.

(* broadcast.rs:29 broadcast_pair *)
Definition broadcast_pair (t1 t2 : ty) : result ty :=
  if negb (scalar_eqb (st_of t1) (st_of t2)) then Err else
  if is_scalar t1 then Ok t2 else
  if is_scalar t2 then Ok t1 else
  let* s := broadcast_shapes (shape_of t1) (shape_of t2) in Ok (TArray s (st_of t1)).

(* broadcast.rs:46 broadcast_arrays *)
Definition broadcastable (x : ty) : bool :=
  match x with TScalar _ => true | TArray sh _ => is_valid_shape sh | _ => false end.
Definition broadcast_arrays (ts : list ty) : result ty :=
  match ts with
  | [] => Err
  | t0 :: rest =>
      if negb (forallb broadcastable ts) then Err else
      fold_left (fun acc t => let* r := acc in broadcast_pair r t) rest (Ok t0)
  end.

(* type_inference.rs:38 mixed_multiply_inference *)
Definition mixed_multiply_inference (t0 t1 : ty) : result ty :=
  if negb (is_leaf t0) then Err else
  if negb (is_leaf t1) then Err else
  if scalar_eqb (st_of t0) Bit then Err else
  if negb (scalar_eqb (st_of t1) Bit) then Err else
  if is_scalar t1 then Ok t0 else
  if is_scalar t0 then Ok (TArray (shape_of t1) (st_of t0)) else
  let* s := broadcast_shapes (shape_of t0) (shape_of t1) in Ok (TArray s (st_of t0)).

(* type_inference.rs:74 dot_type_inference *)
Definition dot_type_inference (t0 t1 : ty) : result ty :=
  if negb (is_leaf t0) then Err else
  if negb (is_leaf t1) then Err else
  if negb (scalar_eqb (st_of t0) (st_of t1)) then Err else
  let st := st_of t0 in
  if is_arr t0 && is_arr t1 then
    let s0 := shape_of t0 in let s1 := shape_of t1 in
    if (zlen s0 =? 1) && (zlen s1 =? 1) then
      let* a := znth s0 0 in let* b := znth s1 0 in
      if negb (a =? b) then Err else Ok (TScalar st)
    else if zlen s1 =? 1 then
      let* a := znth s0 (zlen s0 - 1) in let* b := znth s1 0 in
      if negb (a =? b) then Err else Ok (TArray (removelast s0) st)
    else
      let* a := znth s0 (zlen s0 - 1) in let* b := znth s1 (zlen s1 - 2) in
      if negb (a =? b) then Err else
      Ok (TArray (removelast s0 ++ firstn (length s1 - 2) s1 ++ skipn (length s1 - 1) s1) st)
  else if is_arr t0 then Ok t0 else Ok t1.

(* type_inference.rs:132 matmul_type_inference *)
Definition matmul_type_inference (t0 t1 : ty) : result ty :=
  if negb (is_arr t0) then Err else
  if negb (is_arr t1) then Err else
  if negb (scalar_eqb (st_of t0) (st_of t1)) then Err else
  let st := st_of t0 in
  let remove0 := zlen (shape_of t0) =? 1 in
  let remove1 := zlen (shape_of t1) =? 1 in
  let s0 := if remove0 then 1 :: shape_of t0 else shape_of t0 in
  let s1 := if remove1 then shape_of t1 ++ [1] else shape_of t1 in
  let* a := znth s0 (zlen s0 - 1) in let* b := znth s1 (zlen s1 - 2) in
  if negb (a =? b) then Err else
  if (zlen s0 <? 2) || (zlen s1 <? 2) then Panic else      (* s0[0..s0.len() - 2] *)
  let* bs := broadcast_shapes (firstn (length s0 - 2) s0) (firstn (length s1 - 2) s1) in
  let* r0 := znth s0 (zlen s0 - 2) in
  let* c1 := znth s1 (zlen s1 - 1) in
  let dims := bs ++ (if remove0 then [] else [r0]) ++ (if remove1 then [] else [c1]) in
  match dims with [] => Ok (TScalar st) | _ => Ok (TArray dims st) end.

(* type_inference.rs:190 gemm_type_inference (transpose_shape, :179, is Eval.transpose_shape) *)
Definition gemm_type_inference (t0 t1 : ty) (tr0 tr1 : bool) : result ty :=
  if negb (is_arr t0) then Err else
  if negb (is_arr t1) then Err else
  if negb (scalar_eqb (st_of t0) (st_of t1)) then Err else
  if (zlen (shape_of t0) =? 1) || (zlen (shape_of t1) =? 1) then Err else
  let st := st_of t0 in
  let s0 := transpose_shape (shape_of t0) tr0 in
  let s1 := transpose_shape (shape_of t1) tr1 in
  let* a := znth s0 (zlen s0 - 1) in let* b := znth s1 (zlen s1 - 2) in
  if negb (a =? b) then Err else
  let* bs := broadcast_shapes (firstn (length s0 - 2) s0) (firstn (length s1 - 2) s1) in
  let* r0 := znth s0 (zlen s0 - 2) in
  let* c1 := znth s1 (zlen s1 - 1) in
  Ok (TArray (bs ++ [r0; c1]) st).

(* type_inference.rs:231 a2b_type_inference *)
Definition a2b_type_inference (t : ty) : result ty :=
  if negb (is_leaf t) then Err else
  if scalar_eqb (st_of t) Bit then Err else
  if is_scalar t then Ok (TArray [width (st_of t)] Bit)
  else Ok (TArray (shape_of t ++ [width (st_of t)]) Bit).

(* type_inference.rs:253 b2a_type_inference *)
Definition b2a_type_inference (t : ty) (st : scalar) : result ty :=
  if negb (ty_valid t) then Err else
  if negb (is_arr t) then Err else
  if negb (scalar_eqb (st_of t) Bit) then Err else
  if scalar_eqb st Bit then Err else
  let shape := shape_of t in
  let* l := znth shape (zlen shape - 1) in
  if negb (l =? width st) then Err else
  if zlen shape =? 1 then Ok (TScalar st) else Ok (TArray (removelast shape) st).

(* type_inference.rs:493 flatten_type_size, with its checked_add / checked_mul *)
Fixpoint flatten_type_size (t : ty) : result Z :=
  match t with
  | TScalar _ | TArray _ _ => Ok 1
  | TTuple ts =>
      fold_left (fun acc t => let* a := acc in let* e := flatten_type_size t in chk64 (a + e))
                ts (Ok 0)
  | TNamed fs =>
      fold_left (fun acc p => let* a := acc in let* e := flatten_type_size (snd p) in chk64 (a + e))
                fs (Ok 0)
  | TVector n t1 => if n =? 0 then Ok 0 else let* e := flatten_type_size t1 in chk64 (e * n)
  end.

(* type_inference.rs:526 flatten_type *)
Fixpoint flatten_type (t : ty) : list ty :=
  match t with
  | TScalar _ | TArray _ _ => [t]
  | TTuple ts => flat_map flatten_type ts
  | TNamed fs => flat_map (fun p => flatten_type (snd p)) fs
  | TVector n t1 => concat (repeat (flatten_type t1) (Z.to_nat n))
  end.

(* type_inference.rs:562 can_atomic_reshape (u64 products; a debug-profile overflow cannot occur
   for shapes that passed is_valid_shape) *)
Definition can_atomic_reshape (t1 t2 : ty) : result bool :=
  if negb (is_leaf t1) || negb (is_leaf t2) then Panic else
  if negb (scalar_eqb (st_of t1) (st_of t2)) then Ok false else
  let s1 := shape_of t1 in let s2 := shape_of t2 in   (* [] for a scalar *)
  if negb (is_scalar t1) && negb (is_valid_shape s1) then Ok false else
  if negb (is_scalar t2) && negb (is_valid_shape s2) then Ok false else
  Ok (prod_list s1 =? prod_list s2).

Fixpoint all_atomic_reshape (v1 v2 : list ty) : result bool :=
  match v1 with
  | [] => Ok true
  | a :: r1 =>
      match v2 with
      | [] => Panic                                   (* v2[i] out of range *)
      | b :: r2 => let* c := can_atomic_reshape a b in
                   if c then all_atomic_reshape r1 r2 else Ok false
      end
  end.

Definition vec_elem (t : ty) : ty := match t with TVector _ e => e | _ => TTuple [] end.
Definition set_nth (l : list Z) (i : nat) (v : Z) : list Z := firstn i l ++ v :: skipn (S i) l.

(* the 128-bit key check shared by PRF and PermutationFromPRF, type_inference.rs:1039-1046 *)
Definition is_prf_key (t : ty) : bool :=
  match t with TArray [n] Bit => n =? 128 | _ => false end.

Definition is_uint_index (st : scalar) : bool :=
  negb (width st =? 128) && negb (signed st) && negb (scalar_eqb st Bit).

Definition infer_op (o : op) (ts : list ty) : result ty :=
  let dep i := nth i ts (TTuple []) in
  match o with
  (* type_inference.rs:644 Input, :652 Zeros/Ones *)
  | OInput t | OZeros t | OOnes t => if negb (ty_valid t) then Err else register t
  (* :660 *)
  | OAdd | OSubtract | OMultiply =>
      let* r := broadcast_arrays [dep 0%nat; dep 1%nat] in register r
  (* :668 *)
  | OMixedMultiply => let* r := mixed_multiply_inference (dep 0%nat) (dep 1%nat) in register r
  (* :676 *)
  | ODot => let* r := dot_type_inference (dep 0%nat) (dep 1%nat) in register r
  (* :684 *)
  | OMatmul => let* r := matmul_type_inference (dep 0%nat) (dep 1%nat) in register r
  (* :692 *)
  | OGemm a b => let* r := gemm_type_inference (dep 0%nat) (dep 1%nat) a b in register r
  (* :724 *)
  | OApplyPermutation _ =>
      let t := dep 0%nat in
      if negb (is_arr t) then Err else
      let* n := znth (shape_of t) 0 in
      match dep 1%nat with
      | TArray shape st =>
          if width st =? 128 then Err else
          if negb (zlen shape =? 1) then Err else
          let* m := znth shape 0 in
          if negb (m =? n) || scalar_eqb st Bit || signed st then Err else register t
      | _ => Err
      end
  (* :806 *)
  | OTruncate d =>
      let t := dep 0%nat in
      if d =? 0 then Err else
      if negb (is_leaf t) then Err else
      if signed (st_of t) && (2 ^ 127 - 1 <? d) then Err else register t
  (* :820 *)
  | OSum s =>
      let t := dep 0%nat in
      if negb (is_arr t) then Err else
      let os := shape_of t in
      if negb (nodup_z s) then Err else
      if negb (forallb (fun x => x <? zlen os) s) then Err else
      let rs := map snd (filter (fun p => negb (existsb (Z.eqb (fst p)) s))
                                (combine (zrange (zlen os)) os)) in
      register (match rs with [] => TScalar (st_of t) | _ => TArray rs (st_of t) end)
  (* :854 *)
  | OCumSum axis =>
      let t := dep 0%nat in
      if negb (is_arr t) then Err else
      if zlen (shape_of t) <=? axis then Err else register t
  (* :866 *)
  | OPermuteAxes s =>
      let t := dep 0%nat in
      if negb (is_arr t) then Err else
      let os := shape_of t in
      if negb (nodup_z s) then Err else
      if negb (forallb (fun x => x <? zlen os) s) then Err else
      if negb (zlen s =? zlen os) then Err else
      let* rs := mapM (fun x => znth os x) s in
      register (TArray rs (st_of t))
  (* :895 *)
  | OInversePermutation =>
      let t := dep 0%nat in
      if negb (is_arr t) then Err else
      let st := st_of t in
      if width st =? 128 then Err else
      if scalar_eqb st Bit || signed st then Err else
      if 1 <? zlen (shape_of t) then Err else register t
  (* :918 *)
  | OCuckooToPermutation =>
      let t := dep 0%nat in
      if negb (is_arr t) then Err else
      if negb (scalar_eqb (st_of t) U64) then Err else register t
  (* :931 (the result is not registered, hence not re-validated) *)
  | ODecomposeSwitchingMap n =>
      let t := dep 0%nat in
      if negb (is_arr t) then Err else
      if negb (scalar_eqb (st_of t) U64) then Err else
      let shape := shape_of t in
      let* d0 := znth shape 0 in
      if n <? d0 then Err else
      Ok (TTuple [t; TTuple [TArray shape U64; TArray shape Bit]; t])
  (* :954 *)
  | OGet s =>
      let t := dep 0%nat in
      if negb (is_arr t) then Err else
      let os := shape_of t in
      if zlen os <? zlen s then Err else
      if negb (forallb (fun p => fst p <? snd p) (combine s os)) then Err else
      if zlen s =? zlen os then register (TScalar (st_of t))
      else register (TArray (skipn (length s) os) (st_of t))
  (* :982 *)
  | OGetSlice sl =>
      let t := dep 0%nat in
      if negb (is_arr t) then Err else
      let* ns := get_slice_shape (shape_of t) sl in
      register (match ns with [] => TScalar (st_of t) | _ => TArray ns (st_of t) end)
  (* :998 *)
  | OReshape new_t =>
      let old_t := dep 0%nat in
      let* n1 := flatten_type_size old_t in
      let* n2 := flatten_type_size new_t in
      if negb (n1 =? n2) then Err else
      let* okb := all_atomic_reshape (flatten_type old_t) (flatten_type new_t) in
      if negb okb then Err else register new_t
  (* :1020 *)
  | ONOP => register (dep 0%nat)
  (* :1025 *)
  | ORandom t => register t
  (* :1029 *)
  | ORandomPermutation n => if n =? 0 then Err else register (TArray [n] U64)
  (* :1037 *)
  | OPRF _ ot =>
      if negb (is_arr (dep 0%nat)) then Err else
      if negb (is_prf_key (dep 0%nat)) then Err else register ot
  (* :1050 *)
  | OPermutationFromPRF _ n =>
      if negb (is_arr (dep 0%nat)) then Err else
      if negb (is_prf_key (dep 0%nat)) then Err else
      if n <? 1 then Err else
      if 2 ^ 30 <? n then Err else register (TArray [n] U64)
  (* :1072 *)
  | OStack outer =>
      if negb (is_valid_shape outer) then Err else
      if negb (zlen ts =? prod_list outer) then Err else
      let* inner := broadcast_arrays ts in
      register (if is_scalar inner then TArray outer (st_of inner)
                else TArray (outer ++ shape_of inner) (st_of inner))
  (* :1101 *)
  | OConcatenate axis =>
      if zlen ts <? 2 then Err else
      if negb (forallb is_arr ts) then Err else
      let first := dep 0%nat in
      let st := st_of first in
      let rs0 := shape_of first in
      if zlen rs0 <=? axis then Err else
      let* rs :=
        fold_left (fun acc t =>
                     let* rs := acc in
                     if negb (scalar_eqb (st_of t) st) then Err else
                     let shape := shape_of t in
                     if negb (zlen rs =? zlen shape) then Err else
                     if negb (forallb (fun p => (fst (snd p) =? snd (snd p)) || (axis =? fst p))
                                      (combine (zrange (zlen shape)) (combine rs shape)))
                     then Err else
                     let* a := znth rs axis in let* b := znth shape axis in
                     if u64_max <? a + b then Panic else      (* += in a debug build *)
                     Ok (set_nth rs (Z.to_nat axis) (a + b)))
                  (tl ts) (Ok rs0) in
      register (TArray rs st)
  (* :1151; Value::check_type (data_values.rs:990) first computes get_size_in_bits of the type
     (an invalid or overflowing type is an error), then compares byte lengths; on decoded values
     this is has_type *)
  | OConstant t v =>
      let* _ := size_in_bits t in
      if negb (has_type v t) then Err else register t
  (* :1160 *)
  | OA2B => let* r := a2b_type_inference (dep 0%nat) in register r
  (* :1166 *)
  | OB2A st => let* r := b2a_type_inference (dep 0%nat) st in register r
  (* :1172 *)
  | OCreateTuple => register (TTuple ts)
  (* :1181 *)
  | OCreateNamedTuple names =>
      if negb (zlen ts =? zlen names) then Err else
      if negb (nodup_strings names) then Err else
      register (TNamed (combine names ts))
  (* :1211 *)
  | OCreateVector et =>
      if negb (forallb (fun t => ty_eqb t et) ts) then Err else
      register (TVector (zlen ts) et)
  (* :1223 *)
  | OTupleGet i =>
      match dep 0%nat with
      | TTuple fs => if zlen fs <=? i then Err else let* r := znth fs i in register r
      | TNamed fs => if zlen fs <=? i then Err else let* r := znth fs i in register (snd r)
      | _ => Err
      end
  (* :1256 *)
  | ONamedTupleGet name =>
      match dep 0%nat with
      | TNamed fs =>
          match find (fun f => String.eqb (fst f) name) fs with
          | Some f => register (snd f)
          | None => Err
          end
      | _ => Err
      end
  (* :1276 *)
  | OVectorGet =>
      let it := dep 1%nat in
      if negb (ty_eqb it (TScalar U64)) && negb (ty_eqb it (TScalar U32)) then Err else
      match dep 0%nat with
      | TVector _ inner => register inner
      | _ => Err
      end
  (* :1295; every operand must be a vector of the length of the first one *)
  | OZip =>
      if zlen ts <? 2 then Err else
      match ts with
      | TVector len _ :: _ =>
          if forallb (fun t => match t with TVector n _ => n =? len | _ => false end) ts
          then register (TVector len (TTuple (map vec_elem ts))) else Err
      | _ => Err
      end
  (* :1343 *)
  | ORepeat n => register (TVector n (dep 0%nat))
  (* :1442 *)
  | OArrayToVector =>
      let t := dep 0%nat in
      if negb (is_arr t) then Err else
      let shape := shape_of t in
      let* d0 := znth shape 0 in
      if zlen shape =? 1 then register (TVector d0 (TScalar (st_of t)))
      else register (TVector d0 (TArray (tl shape) (st_of t)))
  (* :1461 *)
  | OVectorToArray =>
      match dep 0%nat with
      | TVector len et =>
          if len =? 0 then Err else
          if negb (is_leaf et) then Err else
          if is_scalar et then register (TArray [len] (st_of et))
          else register (TArray (len :: shape_of et) (st_of et))
      | _ => Err
      end
  (* :1491 *)
  | OGather axis =>
      let input_t := dep 0%nat in
      if negb (is_arr input_t) then Err else
      match dep 1%nat with
      | TArray ishape ist =>
          if width ist =? 128 then Err else
          if signed ist || scalar_eqb ist Bit then Err else
          let input_shape := shape_of input_t in
          if zlen input_shape <=? axis then Err else
          let* d := znth input_shape axis in
          if d <? prod_list ishape then Err else
          register (TArray (firstn (Z.to_nat axis) input_shape ++ ishape
                            ++ skipn (Z.to_nat axis + 1) input_shape) (st_of input_t))
      | _ => Err
      end
  (* :1595 *)
  | OSegmentCumSum =>
      let input_t := dep 0%nat in
      let binary_t := dep 1%nat in
      let first_t := dep 2%nat in
      if negb (is_arr input_t) then Err else
      let input_shape := shape_of input_t in
      let* d0 := znth input_shape 0 in
      if negb (ty_eqb (TArray [d0] Bit) binary_t) then Err else
      let st := st_of input_t in
      if (zlen input_shape =? 1) && negb (ty_eqb (TScalar st) first_t) then Err else
      if negb (zlen input_shape =? 1) && negb (ty_eqb (TArray (tl input_shape) st) first_t) then Err else
      if u64_max <? d0 + 1 then Panic else                     (* += 1 in a debug build *)
      register (TArray (d0 + 1 :: tl input_shape) st)
  (* :1644 *)
  | OPrint _ => register (dep 0%nat)
  (* :1649 *)
  | OAssert _ =>
      let c := dep 0%nat in
      if negb (is_scalar c) || negb (scalar_eqb (st_of c) Bit) then Err else register (dep 1%nat)
  (* not mirrored *)
  | OJoin _ _ | OJoinWithColumnMasks _ _ | OSort _ | OCuckooHash | OShard _
  | OShardWithColumnMasks _ | OCall | OIterate | OCustom _ => Err
  end.

(* type_inference.rs:625-631: the dependency count is checked before anything else *)
Definition infer (o : op) (ts : list ty) : result ty :=
  match arity o with
  | Some n => if zlen ts =? n then infer_op o ts else Err
  | None => infer_op o ts
  end.

(* operations [infer] mirrors (everything but the list above) *)
Definition infer_mirrored (o : op) : bool :=
  match o with
  | OJoin _ _ | OJoinWithColumnMasks _ _ | OSort _ | OCuckooHash | OShard _
  | OShardWithColumnMasks _ | OCall | OIterate | OCustom _ => false
  | _ => true
  end.
